#!/bin/sh
# Builds the harness test binaries from files on disk only (offline) and warms the Go build cache.
set -e
cd "$(dirname "$0")"
export GOFLAGS=-mod=mod GOPROXY=off GOSUMDB=off GOTOOLCHAIN=local
GO=/root/go/pkg/mod/golang.org/toolchain@v0.0.1-go1.25.6.linux-amd64/bin/go
[ -x "$GO" ] || GO=/opt/veriftools/go1.26.8/bin/go
[ -x "$GO" ] || GO=go1.26.8
mkdir -p .build evidence
cp /repo/go.sum harness/go.sum 2>/dev/null || true
cd harness
for pkg in sim pure zkb; do
  [ -d "$pkg" ] && ls "$pkg"/*_test.go >/dev/null 2>&1 || continue
  "$GO" test -c -tags verif -o ../.build/$pkg.test ./$pkg
done
"$GO" test -c -race -tags verif -o ../.build/sim-race.test ./sim
echo setup done
