#!/bin/sh
# seedrun.sh <seed-name> [check ids...]: applies seeded/<seed-name>/patch.diff to a scratch worktree of /repo HEAD
# (never to /repo itself), runs the named checks (default: the property it breaks) against it, removes the worktree.
set -u
NAME=$1; shift
D=/verif/seeded/$NAME
ID=$(python3 -c "import json;print(json.load(open('$D/meta.json'))['breaks_property'])")
CHECKS=${*:-$ID}
W=/tmp/seedrun-$NAME
git -C /repo worktree remove --force $W >/dev/null 2>&1
git -C /repo worktree add -q --detach $W HEAD || exit 9
git -C $W apply $D/patch.diff || { echo "PATCH DOES NOT APPLY: $NAME"; git -C /repo worktree remove --force $W; exit 8; }
cd /verif
rc=0
for c in $CHECKS; do
  out=$(VERIF_REPO=$W ./vcheck $c --no-evidence 2>&1)
  n=$(echo "$out" | grep -c "^VIOLATION")
  sigs=$(echo "$out" | grep "signature:" | sed 's/.*signature: //' | sort | uniq -c | sort -rn | head -3 | tr '\n' ';')
  echo "$NAME vs $c: $n violation line(s) [$sigs] $(echo "$out" | grep 'tier=' | sed 's/.*scenarios/scenarios/' | cut -c1-120)"
  [ "$n" -gt 0 ] || rc=1
done
git -C /repo worktree remove --force $W
exit $rc
