#!/usr/bin/env python3
"""Regenerates the seeded-change table of DESIGN.md section 0.5 from seeded/*/meta.json and patch.diff."""
import json, os, re
rows = []
for n in sorted(os.listdir('/verif/seeded')):
    d = os.path.join('/verif/seeded', n)
    if not os.path.isfile(os.path.join(d, 'meta.json')):
        continue
    m = json.load(open(os.path.join(d, 'meta.json')))
    files = sorted(set(re.findall(r'^\+\+\+ b/(\S+)', open(os.path.join(d, 'patch.diff')).read(), re.M)))
    files = [f for f in files if not f.endswith('_test.go')]
    cell = lambda s: str(s).replace('|', '/').replace('\n', ' ')
    rows.append('| `%s` | %s | %s | %s | %s |' % (n, m['breaks_property'], ', '.join('`%s`' % f for f in files), cell(m.get('needs_to_manifest', '')), cell(m.get('caught_by', ''))))
head = '| seeded change | property | file | needs | reported as |'
s = open('/verif/DESIGN.md').read()
i = s.index(head)
j = s.index('\n\n', i)
s = s[:i] + head + '\n|---|---|---|---|---|\n' + '\n'.join(rows) + s[j:]
open('/verif/DESIGN.md', 'w').write(s)
print(len(rows), 'rows')
