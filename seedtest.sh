#!/bin/sh
# seedtest.sh <ID> <worktree-with-MUTANT.diff> [check ids...]: confirms a seeded change and runs checks against it.
# The change is applied to a scratch worktree of /repo (never to /repo itself); VERIF_REPO points the checks at it.
set -u
ID=$1; SRC=$2; shift 2
CHECKS=${*:-$ID}
export GO=/root/go/pkg/mod/golang.org/toolchain@v0.0.1-go1.25.6.linux-amd64/bin/go GOTOOLCHAIN=local GOFLAGS=-mod=mod GOPROXY=off GOSUMDB=off
W=/tmp/seed-$ID
git -C /repo worktree remove --force $W >/dev/null 2>&1
git -C /repo worktree add -q --detach $W HEAD || exit 9
cd $W
# demo files = untracked files of the agent's worktree (except the report files)
DEMOS=$(git -C $SRC ls-files --others --exclude-standard | grep -v '^MUTANT\.' | grep -v '^\.' )
for f in $DEMOS; do mkdir -p $(dirname $f); cp $SRC/$f $f; done
echo "== demo on the ORIGINAL code (must pass)"
PKGS=$(for f in $DEMOS; do case $f in *_test.go) echo ./$(dirname $f);; esac; done | sort -u)
[ -n "$PKGS" ] && $GO test -vet=off -count=1 $PKGS 2>&1 | tail -3
git apply $SRC/MUTANT.diff || { echo "PATCH DOES NOT APPLY"; exit 8; }
echo "== build + existing suite with the change (must pass)"
$GO build ./... 2>&1 | tail -3
for f in $DEMOS; do mv $f $f.off; done
$GO test -vet=off -count=1 ./internal/... ./tests/testutil/... 2>&1 | grep -v "no test files" | tail -8
for f in $DEMOS; do mv $f.off $f; done
echo "== demo WITH the change (must fail)"
[ -n "$PKGS" ] && $GO test -vet=off -count=1 $PKGS 2>&1 | tail -4
for f in $DEMOS; do rm -f $f; done
cd /verif
for c in $CHECKS; do
  echo "== check $c against the change"
  VERIF_REPO=$W ./vcheck $c --no-evidence 2>&1 | grep "VIOLATION\|signature\|what:\|tier=\|INCONCLUSIVE\|KNOWN" | cut -c1-330 | head -14
done
