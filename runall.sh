#!/bin/sh
# runs every claimed quick (or $1) check once and prints one summary line each
tier=${1:-quick}
for p in $(python3 -c "import json;print(' '.join(c['property_id'] for c in json.load(open('/verif/MANIFEST.json'))['checks']))"); do
  ./vcheck $p --tier $tier ${2:+--no-evidence} 2>&1 | grep "tier=\|VIOLATION\|INCONCLUSIVE\|signature" | cut -c1-260
done
