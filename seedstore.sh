#!/bin/sh
# seedstore.sh <seed-name> <ID> <agent-worktree> <caught-by> <needs...>: stores a confirmed seeded change under seeded/<seed-name>/
set -eu
NAME=$1; ID=$2; SRC=$3; CAUGHT=$4; shift 4
NEEDS="$*"
D=/verif/seeded/$NAME
mkdir -p $D/demo
cp $SRC/MUTANT.diff $D/patch.diff
[ -f $SRC/MUTANT.md ] && cp $SRC/MUTANT.md $D/NOTES.md
for f in $(git -C $SRC ls-files --others --exclude-standard | grep -v '^MUTANT\.' | grep -v '^\.'); do
  mkdir -p $D/demo/$(dirname $f); cp $SRC/$f $D/demo/$f
done
python3 - "$D" "$ID" "$CAUGHT" "$NEEDS" <<'EOF'
import json, sys, os
d, pid, caught, needs = sys.argv[1:5]
demos = []
for r, _, fs in os.walk(os.path.join(d, "demo")):
    for f in fs:
        demos.append(os.path.relpath(os.path.join(r, f), os.path.join(d, "demo")))
meta = {
  "breaks_property": pid,
  "needs_to_manifest": needs,
  "demonstration": sorted(demos),
  "confirmed_by": "seedtest.sh %s <agent worktree>: scratch worktree of /repo HEAD under /tmp; demo passes on the original; patch applies; go build ./... ok; go test ./internal/... ./tests/testutil/... ok with the change (demo moved aside); demo fails with the change; then VERIF_REPO=<worktree> ./vcheck <check>" % pid,
  "caught_by": caught,
}
json.dump(meta, open(os.path.join(d, "meta.json"), "w"), indent=1)
EOF
echo stored $D
