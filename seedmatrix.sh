#!/bin/sh
# seedmatrix.sh [logfile]: re-runs every stored seeded change against the check recorded as catching it (first property
# id in meta.json's caught_by, default: the property it breaks); prints one line per seed; exit 1 if any is missed.
cd /verif
LOG=${1:-/dev/stdout}
rc=0
for d in seeded/*/; do
  n=$(basename $d)
  c=$(python3 -c "
import json,re
m=json.load(open('$d/meta.json'))
x=re.search(r'C\d\d', m.get('caught_by',''))
print(x.group(0) if x else m['breaks_property'])")
  ./seedrun.sh $n $c >>$LOG 2>&1 || { rc=1; echo "MISSED: $n vs $c" >>$LOG; }
done
exit $rc
