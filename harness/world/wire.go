package world

import (
	"context"
	"encoding/binary"
	"errors"
	"fmt"
	"io"
	"net"
	"regexp"
	"strconv"
	"strings"
	"time"
)

type myconn struct {
	c        net.Conn
	seq      byte
	lockWait int
	caller   string // identity from the handshake user name
	from     string // host the caller runs on (reachability)
	host     string // server
	w        *World
}

func (m *myconn) write(p []byte) error {
	hdr := []byte{byte(len(p)), byte(len(p) >> 8), byte(len(p) >> 16), m.seq}
	m.seq++
	_, err := m.c.Write(append(hdr, p...))
	return err
}

func (m *myconn) read() ([]byte, error) {
	hdr := make([]byte, 4)
	if _, err := io.ReadFull(m.c, hdr); err != nil {
		return nil, err
	}
	n := int(hdr[0]) | int(hdr[1])<<8 | int(hdr[2])<<16
	m.seq = hdr[3] + 1
	p := make([]byte, n)
	_, err := io.ReadFull(m.c, p)
	return p, err
}

func lenencInt(b []byte, n uint64) []byte {
	switch {
	case n < 251:
		return append(b, byte(n))
	case n < 1<<16:
		return append(b, 0xfc, byte(n), byte(n>>8))
	case n < 1<<24:
		return append(b, 0xfd, byte(n), byte(n>>8), byte(n>>16))
	default:
		b = append(b, 0xfe)
		return binary.LittleEndian.AppendUint64(b, n)
	}
}

func lenencStr(b []byte, s string) []byte { return append(lenencInt(b, uint64(len(s))), s...) }

func (m *myconn) ok() error  { return m.write([]byte{0, 0, 0, 2, 0, 0, 0}) }
func (m *myconn) eof() error { return m.write([]byte{0xfe, 0, 0, 2, 0}) }
func (m *myconn) errPkt(code int, msg string) error {
	p := []byte{0xff, byte(code), byte(code >> 8), '#', 'H', 'Y', '0', '0', '0'}
	return m.write(append(p, msg...))
}

func (m *myconn) coldef(name string, typ byte) error {
	var col []byte
	col = lenencStr(col, "def")
	col = lenencStr(col, "")
	col = lenencStr(col, "")
	col = lenencStr(col, "")
	col = lenencStr(col, name)
	col = lenencStr(col, "")
	col = append(col, 0x0c, 33, 0, 0, 1, 0, 0, typ, 0, 0, 0, 0, 0)
	return m.write(col)
}

// result is what a statement produces.
type result struct {
	errno int
	msg   string
	cols  []string
	rows  [][]any
	isSet bool   // a result set (possibly empty) rather than OK
	hang  bool   // never answer
	drop  bool   // close the connection without answering
	wait  func() // executed outside the mutex before replying (blocking statements)
	delay time.Duration
	note  string // summary of the reply for the event log (the caller's view)
}

func (m *myconn) send(r *result, binary bool) error {
	switch {
	case r.errno != 0:
		return m.errPkt(r.errno, r.msg)
	case !r.isSet:
		return m.ok()
	}
	if err := m.write(lenencInt(nil, uint64(len(r.cols)))); err != nil {
		return err
	}
	for _, c := range r.cols {
		if err := m.coldef(c, 0xfd); err != nil {
			return err
		}
	}
	if err := m.eof(); err != nil {
		return err
	}
	for _, row := range r.rows {
		var p []byte
		if binary {
			p = append(p, 0)
			nb := (len(row) + 7 + 2) / 8
			bitmap := make([]byte, nb)
			for i, v := range row {
				if v == nil {
					bitmap[(i+2)/8] |= 1 << (uint(i+2) % 8)
				}
			}
			p = append(p, bitmap...)
			for _, v := range row {
				if v != nil {
					p = lenencStr(p, fmt.Sprint(v))
				}
			}
		} else {
			for _, v := range row {
				if v == nil {
					p = append(p, 0xfb)
				} else {
					p = lenencStr(p, fmt.Sprint(v))
				}
			}
		}
		if err := m.write(p); err != nil {
			return err
		}
	}
	return m.eof()
}

var reSpace = regexp.MustCompile(`\s+`)

// ErrRefused is returned by Dial for a server that is down.
var ErrRefused = errors.New("fakemysql: connection refused")

// Dial opens a connection from caller host `from` to `server`. It refuses at once when the
// server is down and hangs until ctx ends when the server is unreachable from `from`.
func (w *World) Dial(ctx context.Context, from, caller, server string) (net.Conn, error) {
	w.mu.Lock()
	if w.Dials == nil {
		w.Dials = map[string]map[string]int{}
	}
	if w.Dials[server] == nil {
		w.Dials[server] = map[string]int{}
	}
	w.Dials[server][caller]++
	if w.deadCaller[caller] {
		w.mu.Unlock()
		time.Sleep(time.Millisecond)
		return nil, ErrRefused
	}
	s := w.Servers[server]
	up := s != nil && s.Up
	reach := w.ReachLocked(from, server)
	w.mu.Unlock()
	if s == nil {
		time.Sleep(time.Millisecond)
		return nil, fmt.Errorf("fakemysql: no such host %s", server)
	}
	if !reach {
		w.unanswered(caller, server, "dial", "")
		<-ctx.Done()
		return nil, ctx.Err()
	}
	if !up {
		w.refused(caller, server)
		time.Sleep(time.Millisecond)
		return nil, ErrRefused
	}
	a, b := net.Pipe()
	go w.serve(b, from, server)
	return a, nil
}

func (w *World) serve(c net.Conn, from, host string) {
	defer c.Close()
	m := &myconn{c: c, from: from, host: host, w: w, lockWait: 50}
	var p []byte
	p = append(p, 10)
	w.mu.Lock()
	s := w.Servers[host]
	ver := fmt.Sprintf("%d.%d.%d-fake", s.Version[0], s.Version[1], s.Version[2])
	w.mu.Unlock()
	p = append(p, ver...)
	p = append(p, 0)
	p = append(p, 1, 0, 0, 0)
	p = append(p, "12345678"...)
	p = append(p, 0)
	caps := uint32(0x00000200 | 0x00008000 | 0x00080000 | 0x00000001 | 0x00000008 | 0x00002000)
	p = binary.LittleEndian.AppendUint16(p, uint16(caps))
	p = append(p, 33, 2, 0)
	p = binary.LittleEndian.AppendUint16(p, uint16(caps>>16))
	p = append(p, 21)
	p = append(p, make([]byte, 10)...)
	p = append(p, "123456789012\x00"...)
	p = append(p, "mysql_native_password\x00"...)
	if m.write(p) != nil {
		return
	}
	resp, err := m.read()
	if err != nil {
		return
	}
	user := ""
	if len(resp) > 32 {
		rest := resp[32:]
		if i := strings.IndexByte(string(rest), 0); i >= 0 {
			user = string(rest[:i])
		}
	}
	m.caller = user
	w.mu.Lock()
	if w.deadCaller[user] || !w.Servers[host].Up {
		w.mu.Unlock()
		time.Sleep(time.Millisecond)
		return
	}
	if w.conns[user] == nil {
		w.conns[user] = map[net.Conn]bool{}
	}
	w.conns[user][c] = true
	if w.srvConns[host] == nil {
		w.srvConns[host] = map[net.Conn]bool{}
	}
	w.srvConns[host][c] = true
	w.openConns[user]++
	w.mu.Unlock()
	defer func() {
		w.mu.Lock()
		w.openConns[user]--
		if w.conns[user] != nil {
			delete(w.conns[user], c)
		}
		if w.srvConns[host] != nil {
			delete(w.srvConns[host], c)
		}
		w.mu.Unlock()
	}()
	if m.ok() != nil {
		return
	}
	stmts := map[uint32]string{}
	var nextStmt uint32
	for {
		q, err := m.read()
		if err != nil || len(q) == 0 {
			return
		}
		m.seq = 1
		w.mu.Lock()
		s := w.Servers[host]
		up := s != nil && s.Up
		reach := w.ReachLocked(from, host)
		dead := w.deadCaller[user]
		w.mu.Unlock()
		if !up || dead {
			return
		}
		if !reach {
			if q[0] == 0x03 {
				w.unanswered(user, host, "", string(q[1:]))
			}
			continue // swallowed: the caller times out and closes
		}
		switch q[0] {
		case 0x01: // quit
			return
		case 0x0e: // ping
			if m.ok() != nil {
				return
			}
		case 0x03: // query
			if !w.runStmt(m, string(q[1:]), nil, false) {
				return
			}
		case 0x16: // prepare
			nextStmt++
			sqlText := string(q[1:])
			stmts[nextStmt] = sqlText
			np := strings.Count(sqlText, "?")
			out := []byte{0}
			out = binary.LittleEndian.AppendUint32(out, nextStmt)
			out = append(out, 0, 0, byte(np), byte(np>>8), 0, 0, 0)
			if m.write(out) != nil {
				return
			}
			if np > 0 {
				for i := 0; i < np; i++ {
					if m.coldef("?", 0xfd) != nil {
						return
					}
				}
				if m.eof() != nil {
					return
				}
			}
		case 0x17: // execute
			if len(q) < 10 {
				return
			}
			id := binary.LittleEndian.Uint32(q[1:5])
			sqlText := stmts[id]
			np := strings.Count(sqlText, "?")
			pos := 10
			var args []string
			if np > 0 {
				nb := (np + 7) / 8
				pos += nb
				bound := q[pos]
				pos++
				types := make([]byte, np)
				if bound == 1 {
					for i := 0; i < np; i++ {
						types[i] = q[pos]
						pos += 2
					}
				}
				for i := 0; i < np; i++ {
					switch types[i] {
					case 8: // longlong
						args = append(args, strconv.FormatInt(int64(binary.LittleEndian.Uint64(q[pos:pos+8])), 10))
						pos += 8
					case 3: // long
						args = append(args, strconv.FormatInt(int64(int32(binary.LittleEndian.Uint32(q[pos:pos+4]))), 10))
						pos += 4
					case 5: // double
						pos += 8
						args = append(args, "0")
					default: // length-encoded string
						l := int(q[pos])
						pos++
						if l == 0xfc {
							l = int(q[pos]) | int(q[pos+1])<<8
							pos += 2
						}
						args = append(args, "'"+string(q[pos:pos+l])+"'")
						pos += l
					}
				}
			}
			if !w.runStmt(m, sqlText, args, true) {
				return
			}
		case 0x19: // stmt close
			if len(q) >= 5 {
				delete(stmts, binary.LittleEndian.Uint32(q[1:5]))
			}
		case 0x1a: // stmt reset
			if m.ok() != nil {
				return
			}
		default:
			if m.errPkt(1047, "fake: unknown command") != nil {
				return
			}
		}
	}
}

// runStmt executes one statement and replies; false means the connection must end.
func (w *World) runStmt(m *myconn, text string, args []string, binary bool) bool {
	q := strings.TrimSpace(reSpace.ReplaceAllString(text, " "))
	for _, a := range args {
		q = strings.Replace(q, "?", a, 1)
	}
	r := w.exec(m, q)
	if r.drop {
		return false
	}
	if r.hang {
		// never answer; wait until the peer gives up
		buf := make([]byte, 1)
		for {
			if _, err := m.c.Read(buf); err != nil {
				return false
			}
		}
	}
	if r.wait != nil {
		r.wait()
	}
	d := w.StmtLatency + r.delay
	if d > 0 {
		time.Sleep(d)
	}
	return m.send(r, binary) == nil
}

// unanswered records a dial or statement that the server never sees because the caller cannot
// reach it (the caller runs into its own deadline), and tells the AfterStmt hooks with Errno -3.
// refused records a connection attempt to a server that is down (refused at once) and tells the AfterStmt hooks with
// Errno -4: the monitors that reconstruct an instance's view must know that it could not talk to the host.
func (w *World) refused(caller, host string) {
	w.mu.Lock()
	defer w.mu.Unlock()
	w.LogLocked(Event{Kind: "sql", Who: caller, Host: host, Class: "dial", Res: "refused", Err: -4})
	ctx := &StmtCtx{Caller: caller, Host: host, Class: "dial", Errno: -4, Note: "refused"}
	for _, f := range w.AfterStmt {
		f(w, ctx)
	}
}

func (w *World) unanswered(caller, host, class, text string) {
	w.mu.Lock()
	defer w.mu.Unlock()
	if class == "" {
		q := strings.TrimSpace(reSpace.ReplaceAllString(text, " "))
		class, _ = classify(q)
		if class == "" {
			class = "unknown"
		}
	}
	w.LogLocked(Event{Kind: "sql", Who: caller, Host: host, Class: class, Res: "unreachable", Err: -3})
	ctx := &StmtCtx{Caller: caller, Host: host, Class: class, Errno: -3, Note: "unreachable"}
	for _, f := range w.AfterStmt {
		f(w, ctx)
	}
}
