package world

import (
	"fmt"
	"math/rand"
	"regexp"
	"strconv"
	"strings"
	"time"
)

var (
	reChangeSrc = regexp.MustCompile(`(?i)^CHANGE (?:REPLICATION SOURCE|MASTER) TO (?:SOURCE|MASTER)_HOST = '([^']*)'`)
	reSetGlobal = regexp.MustCompile(`(?i)^SET GLOBAL (\w+) = '?(-?\d+)'?$`)
	reKill      = regexp.MustCompile(`(?i)^KILL '?(\d+)'?$`)
	reLockWait  = regexp.MustCompile(`(?i)^SET SESSION lock_wait_timeout = '?(\d+)'?$`)
	reChannel   = regexp.MustCompile(`(?i) FOR CHANNEL '([^']*)'$`)
)

// classify maps normalised statement text to a class name and whether it mutates the server.
func classify(q string) (class string, mut bool) {
	up := strings.ToUpper(q)
	switch {
	case q == "SELECT 1 AS Ok":
		return "ping", false
	case strings.HasPrefix(q, "SELECT sys.version_major()"):
		return "version", false
	case strings.HasPrefix(q, "SELECT @@read_only AS ReadOnly"):
		return "is_ro", false
	case strings.HasPrefix(q, "SELECT @@GLOBAL.offline_mode"):
		return "get_offline", false
	case strings.HasPrefix(up, "SHOW REPLICA STATUS"), strings.HasPrefix(up, "SHOW SLAVE STATUS"):
		return "replica_status", false
	case strings.HasPrefix(q, "SELECT @@GLOBAL.gtid_executed"):
		return "gtid_executed", false
	case strings.HasPrefix(q, "SELECT @@server_uuid"):
		return "uuid", false
	case up == "SHOW BINARY LOGS":
		return "binlogs", false
	case strings.HasPrefix(q, "SELECT @@rpl_semi_sync_master_enabled"):
		return "semisync_status", false
	case strings.HasPrefix(q, "SELECT @@GLOBAL.innodb_flush_log_at_trx_commit"):
		return "repl_settings", false
	case strings.HasPrefix(q, "SELECT EVENT_SCHEMA"):
		return "events", false
	case strings.HasPrefix(up, "ALTER DEFINER"):
		return "enable_event", true
	case strings.HasPrefix(q, "SELECT count(*) <> 0 AS IsWaiting"):
		return "is_waiting", false
	case strings.HasPrefix(q, "SELECT UNIX_TIMESTAMP(DATE_SUB(now()"):
		return "startup_time", false
	case strings.HasPrefix(q, "SELECT ID FROM information_schema.PROCESSLIST"):
		return "processlist", false
	case reKill.MatchString(q):
		return "kill", true
	case reLockWait.MatchString(q):
		return "set_lock_timeout", false
	case q == "SET GLOBAL super_read_only = 1":
		return "set_ro", true
	case q == "SET GLOBAL read_only = 1, super_read_only = 0":
		return "set_ro_nosuper", true
	case q == "SET GLOBAL read_only = 0":
		return "set_writable", true
	case q == "SET GLOBAL offline_mode = ON":
		return "offline_on", true
	case q == "SET GLOBAL offline_mode = OFF":
		return "offline_off", true
	case q == "SET GLOBAL rpl_semi_sync_master_enabled = 1, rpl_semi_sync_slave_enabled = 0":
		return "ss_master", true
	case q == "SET GLOBAL rpl_semi_sync_slave_enabled = 1, rpl_semi_sync_master_enabled = 0":
		return "ss_slave", true
	case q == "SET GLOBAL rpl_semi_sync_slave_enabled = 0, rpl_semi_sync_master_enabled = 0":
		return "ss_disable", true
	case strings.HasPrefix(up, "STOP REPLICA IO_THREAD"), strings.HasPrefix(up, "STOP SLAVE IO_THREAD"):
		return "stop_io", true
	case strings.HasPrefix(up, "START REPLICA IO_THREAD"), strings.HasPrefix(up, "START SLAVE IO_THREAD"):
		return "start_io", true
	case strings.HasPrefix(up, "STOP REPLICA SQL_THREAD"), strings.HasPrefix(up, "STOP SLAVE SQL_THREAD"):
		return "stop_sql", true
	case strings.HasPrefix(up, "START REPLICA SQL_THREAD"), strings.HasPrefix(up, "START SLAVE SQL_THREAD"):
		return "start_sql", true
	case strings.HasPrefix(up, "STOP REPLICA FOR"), strings.HasPrefix(up, "STOP SLAVE FOR"):
		return "stop_replica", true
	case strings.HasPrefix(up, "START REPLICA FOR"), strings.HasPrefix(up, "START SLAVE FOR"):
		return "start_replica", true
	case strings.HasPrefix(up, "RESET REPLICA ALL"), strings.HasPrefix(up, "RESET SLAVE ALL"):
		return "reset_replica", true
	case reChangeSrc.MatchString(q):
		return "change_source", true
	case reSetGlobal.MatchString(q):
		switch strings.ToLower(reSetGlobal.FindStringSubmatch(q)[1]) {
		case "rpl_semi_sync_master_wait_for_slave_count":
			return "ss_wait_count", true
		case "sync_binlog":
			return "set_sync_binlog", true
		case "innodb_flush_log_at_trx_commit":
			return "set_flush", true
		}
	case strings.HasPrefix(up, "SET ") && (strings.Contains(q, "sql_log_off") || strings.Contains(q, "autocommit")) && !strings.Contains(up, "GLOBAL"):
		return "conn_init", false
	case strings.HasPrefix(q, "SELECT UNIX_TIMESTAMP(ts) AS ts FROM"):
		return "replmon_get", false
	case strings.HasPrefix(q, "SELECT FLOOR(CAST("):
		return "replmon_delay", false
	case strings.HasPrefix(up, "CREATE TABLE IF NOT EXISTS"):
		return "replmon_create", true
	case strings.HasPrefix(up, "INSERT INTO") && strings.Contains(q, "CURRENT_TIMESTAMP(3)"):
		return "replmon_update", true
	case strings.HasPrefix(q, "SELECT Seconds_Behind_Master FROM mysync_verif.lag"):
		return "custom_lag", false
	case strings.HasPrefix(q, "SELECT channel_name AS ChannelName"), strings.HasPrefix(q, "SELECT source_host AS SourceHost"):
		return "ext_repl_settings", false
	}
	return "", false
}

func b2i(b bool) int {
	if b {
		return 1
	}
	return 0
}

func yn(b bool) string {
	if b {
		return "Yes"
	}
	return "No"
}

// IsExternalChannel reports whether the statement addresses a channel other than ”.
func isExternalChannel(q string) bool {
	m := reChannel.FindStringSubmatch(q)
	return m != nil && m[1] != ""
}

// exec classifies, applies and logs one statement. Caller does not hold the mutex.
func (w *World) exec(m *myconn, q string) *result {
	w.mu.Lock()
	defer w.mu.Unlock()
	s := w.Servers[m.host]
	if s == nil || !s.Up || w.deadCaller[m.caller] {
		return &result{drop: true}
	}
	class, mut := classify(q)
	if class == "" {
		w.Unrecognised = append(w.Unrecognised, q)
		w.LogLocked(Event{Kind: "sql", Who: m.caller, Host: m.host, Class: "UNRECOGNISED", Arg: q, Err: 1064})
		return &result{errno: 1064, msg: "fake: unrecognised statement: " + q}
	}
	if isExternalChannel(q) {
		w.LogLocked(Event{Kind: "sql", Who: m.caller, Host: m.host, Class: "ext_" + class, Arg: q, Err: 3074})
		return &result{errno: 3074, msg: "Replica channel does not exist"}
	}
	key := m.caller + "|" + m.host + "|" + class
	w.occ[key]++
	ctx := &StmtCtx{Caller: m.caller, Host: m.host, Class: class, Text: q, Occ: w.occ[key], Mut: mut}
	var fa FaultAction
	if w.Fault != nil && class != "conn_init" {
		fa = w.Fault(ctx)
	}
	w.idseq++
	id := w.idseq
	arg := ""
	if mut || class == "set_lock_timeout" {
		arg = q
		if class == "change_source" {
			arg = "CHANGE SOURCE -> " + reChangeSrc.FindStringSubmatch(q)[1]
		}
	}
	w.LogLocked(Event{Kind: "sql", Phase: "call", Who: m.caller, Host: m.host, Class: class, Arg: arg, Mut: mut, Occ: ctx.Occ, ID: id})
	if fa.Before != nil {
		fa.Before(w)
		if !s.Up || w.deadCaller[m.caller] {
			w.LogLocked(Event{Kind: "sql", Phase: "ret", Who: m.caller, Host: m.host, Class: class, Res: "lost", Err: -1, Mut: mut, Occ: ctx.Occ, ID: id})
			ctx.Errno, ctx.Note = -1, "lost: the server died before executing the statement"
			for _, f := range w.AfterStmt {
				f(w, ctx)
			}
			return &result{drop: true}
		}
	}
	switch fa.Kind {
	case "fail":
		errno := fa.Errno
		if errno == 0 {
			errno = 1105
		}
		w.LogLocked(Event{Kind: "sql", Phase: "ret", Who: m.caller, Host: m.host, Class: class, Res: "injected", Err: errno, Mut: mut, Occ: ctx.Occ, ID: id})
		ctx.Errno, ctx.Note = errno, "injected failure"
		for _, f := range w.AfterStmt {
			f(w, ctx)
		}
		return &result{errno: errno, msg: "injected failure"}
	case "hang":
		w.LogLocked(Event{Kind: "sql", Phase: "ret", Who: m.caller, Host: m.host, Class: class, Res: "hang", Err: -2, Mut: mut, Occ: ctx.Occ, ID: id})
		ctx.Errno, ctx.Note = -2, "hang"
		for _, f := range w.AfterStmt {
			f(w, ctx)
		}
		return &result{hang: true}
	}
	if fa.Kind == "slow" {
		// the server is slow: the statement takes effect (and is answered) only after the delay
		d, host := fa.Delay, s.Host
		out := &result{}
		out.wait = func() {
			time.Sleep(d)
			w.mu.Lock()
			defer w.mu.Unlock()
			srv := w.Servers[host]
			if !srv.Up || w.deadCaller[m.caller] {
				w.LogLocked(Event{Kind: "sql", Phase: "ret", Who: m.caller, Host: m.host, Class: class, Res: "lost", Err: -1, Mut: mut, Occ: ctx.Occ, ID: id})
				ctx.Errno, ctx.Note = -1, "lost: the server died before executing the statement"
				for _, f := range w.AfterStmt {
					f(w, ctx)
				}
				out.errno, out.msg = 2013, "Lost connection"
				return
			}
			for _, f := range w.BeforeStmt {
				f(w, ctx)
			}
			rr := w.apply(m, srv, ctx, id)
			if inner := rr.wait; inner != nil {
				rr.wait = nil
				w.mu.Unlock()
				inner()
				w.mu.Lock()
			}
			*out = *rr
			w.finishLocked(m, ctx, out, id, FaultAction{})
		}
		return out
	}
	for _, f := range w.BeforeStmt {
		f(w, ctx)
	}
	r := w.apply(m, s, ctx, id)
	if r.wait == nil {
		w.finishLocked(m, ctx, r, id, fa)
	} else {
		inner := r.wait
		r.wait = func() {
			inner()
			w.mu.Lock()
			w.finishLocked(m, ctx, r, id, fa)
			w.mu.Unlock()
		}
	}
	if fa.Kind == "delay" {
		r.delay = fa.Delay
	}
	if w.Jitter > 0 {
		if w.jrng == nil {
			w.jrng = rand.New(rand.NewSource(int64(w.Jitter)*7919 + 1))
		}
		r.delay += time.Duration(w.jrng.Intn(w.Jitter)) * w.StmtLatency
	}
	if fa.DropReply && r.wait == nil {
		r.drop = true
	}
	return r
}

func (w *World) finishLocked(m *myconn, ctx *StmtCtx, r *result, id int64, fa FaultAction) {
	ctx.Errno = r.errno
	ctx.Note = r.note
	if fa.Kind == "delay" {
		ctx.Delayed = fa.Delay
	}
	ctx.ReplyDropped = fa.DropReply
	for _, f := range w.AfterStmt {
		f(w, ctx)
	}
	res := "ok"
	if r.errno != 0 {
		res = r.msg
	} else if r.note != "" {
		res = r.note
	}
	w.LogLocked(Event{Kind: "sql", Phase: "ret", Who: m.caller, Host: m.host, Class: ctx.Class, Res: res, Err: r.errno, Mut: ctx.Mut, Occ: ctx.Occ, ID: id})
	if fa.After != nil {
		fa.After(w)
	}
}

func rs(cols []string, rows ...[]any) *result { return &result{isSet: true, cols: cols, rows: rows} }

// apply performs the effect of a statement on server s (mutex held).
func (w *World) apply(m *myconn, s *Server, c *StmtCtx, id int64) *result {
	q := c.Text
	old := s.Version[0] < 8 || (s.Version[0] == 8 && s.Version[1] == 0 && s.Version[2] < 22)
	switch c.Class {
	case "ping":
		return rs([]string{"Ok"}, []any{1})
	case "conn_init", "enable_event":
		if c.Class == "enable_event" {
			s.DisabledEvents = nil
		}
		return &result{}
	case "version":
		return rs([]string{"MajorVersion", "MinorVersion", "PatchVersion"}, []any{s.Version[0], s.Version[1], s.Version[2]})
	case "is_ro":
		r := rs([]string{"ReadOnly", "SuperReadOnly"}, []any{b2i(s.ReadOnly), b2i(s.SuperRO)})
		r.note = fmt.Sprintf("ro=%d sro=%d", b2i(s.ReadOnly), b2i(s.SuperRO))
		return r
	case "get_offline":
		return rs([]string{"OfflineMode"}, []any{b2i(s.Offline)})
	case "gtid_executed":
		return rs([]string{"Executed_Gtid_Set"}, []any{s.Executed.String()})
	case "uuid":
		return rs([]string{"server_uuid"}, []any{s.UUID})
	case "binlogs":
		return rs([]string{"Log_name", "File_size", "Encrypted"}, []any{"mysql-bin-log.000001", w.BinlogSizeLocked(s), "No"})
	case "semisync_status":
		if s.NoSemiSyncPlugin {
			return &result{errno: 1193, msg: "Unknown system variable 'rpl_semi_sync_master_enabled'"}
		}
		r := rs([]string{"MasterEnabled", "SlaveEnabled", "WaitSlaveCount"}, []any{b2i(s.SSMaster), b2i(s.SSSlave), s.WaitCount})
		r.note = fmt.Sprintf("m=%d s=%d w=%d", b2i(s.SSMaster), b2i(s.SSSlave), s.WaitCount)
		return r
	case "repl_settings":
		return rs([]string{"InnodbFlushLogAtTrxCommit", "SyncBinlog"}, []any{s.FlushLog, s.SyncBinlog})
	case "events":
		r := rs([]string{"EVENT_SCHEMA", "EVENT_NAME", "DEFINER"})
		for _, e := range s.DisabledEvents {
			r.rows = append(r.rows, []any{e[0], e[1], e[2]})
		}
		return r
	case "is_waiting":
		return rs([]string{"IsWaiting"}, []any{b2i(len(w.pending[s.Host]) > 0)})
	case "startup_time":
		return rs([]string{"LastStartup"}, []any{s.Started.Unix()})
	case "processlist":
		r := rs([]string{"ID"})
		for _, t := range w.pending[s.Host] {
			r.rows = append(r.rows, []any{1000 + t.Client})
		}
		return r
	case "kill":
		idn, _ := strconv.Atoi(reKill.FindStringSubmatch(q)[1])
		if s.SSMaster && s.WaitCount > 0 {
			w.killPendingLocked(s.Host, idn) // M7: the session is gone, the commit keeps waiting
			return &result{}
		}
		var keep []*Txn
		for _, t := range w.pending[s.Host] {
			if 1000+t.Client == idn {
				t.State = "unknown"
				t.EndAt = time.Since(w.T0)
			} else {
				keep = append(keep, t)
			}
		}
		w.pending[s.Host] = keep
		return &result{}
	case "set_lock_timeout":
		m.lockWait, _ = strconv.Atoi(reLockWait.FindStringSubmatch(q)[1])
		return &result{}
	case "replica_status":
		cols := []string{"Source_Host", "Source_Port", "Source_Log_File", "Read_Source_Log_Pos", "Replica_IO_Running", "Replica_SQL_Running",
			"Last_Error", "Retrieved_Gtid_Set", "Executed_Gtid_Set", "Last_IO_Errno", "Last_IO_Error", "Last_SQL_Errno", "Seconds_Behind_Source", "Auto_Position"}
		if old {
			cols = []string{"Master_Host", "Master_Port", "Master_Log_File", "Read_Master_Log_Pos", "Slave_IO_Running", "Slave_SQL_Running",
				"Last_Error", "Retrieved_Gtid_Set", "Executed_Gtid_Set", "Last_IO_Errno", "Last_IO_Error", "Last_SQL_Errno", "Seconds_Behind_Master", "Auto_Position"}
		}
		if s.Source == "" {
			r := rs(cols)
			r.note = "none"
			return r
		}
		io := "No"
		if s.IORun && s.LastIOErrno == 0 {
			if w.sourceConnectedLocked(s) {
				io = "Yes"
			} else {
				io = "Connecting"
			}
		}
		sqlRun := s.SQLRun && s.LastSQLErrno == 0
		var lag any
		if io == "Yes" && sqlRun {
			if s.Lag != nil {
				lag = *s.Lag
			} else {
				lag = 0
			}
		}
		lastErr, lastIOErr := "", ""
		if s.LastSQLErrno != 0 {
			lastErr = fmt.Sprintf("injected SQL error %d", s.LastSQLErrno)
		}
		if s.LastIOErrno != 0 {
			lastIOErr = fmt.Sprintf("injected IO error %d", s.LastIOErrno)
		}
		r := rs(cols, []any{s.Source, 3306, "mysql-bin-log.000001", w.readPosLocked(s), io, yn(sqlRun), lastErr,
			s.Retrieved.String(), s.Executed.String(), s.LastIOErrno, lastIOErr, s.LastSQLErrno, lag, 1})
		r.note = fmt.Sprintf("src=%s io=%s sql=%s ioerr=%d sqlerr=%d", s.Source, io, yn(sqlRun), s.LastIOErrno, s.LastSQLErrno)
		return r
	case "set_ro", "set_ro_nosuper":
		super := c.Class == "set_ro"
		applyRO := func() {
			s.ReadOnly, s.SuperRO = true, super
		}
		if len(w.pending[s.Host]) == 0 {
			applyRO()
			return &result{}
		}
		// M5: waits for in-flight commits, gives up after the session's lock_wait_timeout
		r := &result{}
		s.roWaiters++
		lockWait := m.lockWait
		host := s.Host
		r.wait = func() {
			waited := 0
			for {
				time.Sleep(100 * time.Millisecond)
				waited++
				w.mu.Lock()
				srv := w.Servers[host]
				if !srv.Up || w.deadCaller[m.caller] {
					srv.roWaiters--
					r.errno, r.msg = 2013, "Lost connection"
					w.mu.Unlock()
					return
				}
				if len(w.pending[host]) == 0 {
					srv.roWaiters--
					applyRO()
					w.mu.Unlock()
					return
				}
				if waited >= lockWait*10 {
					srv.roWaiters--
					r.errno, r.msg = 1205, "Lock wait timeout exceeded; try restarting transaction"
					w.mu.Unlock()
					return
				}
				w.mu.Unlock()
			}
		}
		return r
	case "set_writable":
		s.ReadOnly, s.SuperRO = false, false
		return &result{}
	case "offline_on":
		s.Offline = true
		if s.SSMaster && s.WaitCount > 0 {
			w.killPendingLocked(s.Host, -1) // M4 + M7: sessions dropped, their commits keep waiting for the acknowledgement
		} else {
			w.failPendingLocked(s.Host, "unknown") // M4
		}
		return &result{}
	case "offline_off":
		s.Offline = false
		return &result{}
	case "ss_master":
		s.SSMaster, s.SSSlave = true, false
		return &result{}
	case "ss_slave":
		wasMaster := s.SSMaster
		s.SSMaster, s.SSSlave = false, true
		if wasMaster {
			w.failPendingLocked(s.Host, "acked") // M3
		}
		return &result{}
	case "ss_disable":
		wasMaster := s.SSMaster
		s.SSMaster, s.SSSlave = false, false
		if wasMaster {
			w.failPendingLocked(s.Host, "acked") // M3
		}
		return &result{}
	case "ss_wait_count":
		v, _ := strconv.Atoi(reSetGlobal.FindStringSubmatch(q)[2])
		s.WaitCount = v
		w.ackLocked(s.Host)
		return &result{}
	case "set_sync_binlog":
		v, _ := strconv.Atoi(reSetGlobal.FindStringSubmatch(q)[2])
		s.SyncBinlog, s.SettingsWriter, s.SyncBinlogWriter = v, m.caller, m.caller
		return &result{}
	case "set_flush":
		v, _ := strconv.Atoi(reSetGlobal.FindStringSubmatch(q)[2])
		s.FlushLog, s.SettingsWriter, s.FlushLogWriter = v, m.caller, m.caller
		return &result{}
	case "stop_io":
		s.IORun = false
		return &result{}
	case "start_io":
		if s.Source == "" {
			return &result{errno: 1200, msg: "The server is not configured as replica"}
		}
		s.IORun = true
		s.SSReg = s.SSSlave // M2
		if !s.StickyErr {
			s.LastIOErrno = 0
		}
		return &result{}
	case "stop_sql":
		s.SQLRun = false
		return &result{}
	case "start_sql":
		if s.Source == "" {
			return &result{errno: 1200, msg: "The server is not configured as replica"}
		}
		s.SQLRun = true
		if !s.StickyErr {
			s.LastSQLErrno = 0
		}
		if s.RecurErr != 0 {
			s.LastSQLErrno = s.RecurErr
		}
		return &result{}
	case "stop_replica":
		s.IORun, s.SQLRun = false, false
		return &result{}
	case "start_replica":
		if s.Source == "" {
			return &result{errno: 1200, msg: "The server is not configured as replica"}
		}
		if s.startBroken {
			s.startBroken = false
			return &result{errno: 1872, msg: "Replica failed to initialize applier metadata structure from the repository"}
		}
		s.IORun, s.SQLRun = true, true
		s.SSReg = s.SSSlave // M2
		if !s.StickyErr {
			s.LastIOErrno, s.LastSQLErrno = 0, 0
		}
		if s.RecurErr != 0 {
			s.LastSQLErrno = s.RecurErr
		}
		return &result{}
	case "reset_replica":
		if s.IORun || s.SQLRun {
			return &result{errno: 3081, msg: "This operation cannot be performed with running replication threads"}
		}
		s.Source, s.IORun, s.SQLRun, s.LastIOErrno, s.LastSQLErrno, s.SSReg = "", false, false, 0, 0, false
		s.startBroken = s.ResetBreaksStart
		s.Retrieved = NewSet()
		s.BacklogBytes = 0
		return &result{}
	case "change_source":
		if s.IORun || s.SQLRun {
			return &result{errno: 3021, msg: "This operation cannot be performed with a running replica io thread"}
		}
		s.Source = reChangeSrc.FindStringSubmatch(q)[1]
		if s.StickySource != "" && s.Source != s.StickySource {
			s.StickyErr, s.StickySource = false, ""
		}
		s.LastIOErrno, s.LastSQLErrno = 0, 0
		s.Retrieved = NewSet() // relay logs are purged
		s.BacklogBytes = 0
		return &result{}
	case "replmon_get":
		if !s.ReplMonTable {
			return &result{errno: 1146, msg: "Table 'mysql.mysync_repl_mon' doesn't exist"}
		}
		if s.ReplMonTS == 0 {
			return rs([]string{"ts"})
		}
		return rs([]string{"ts"}, []any{fmt.Sprintf("%.3f", s.ReplMonTS)})
	case "replmon_delay":
		if !s.ReplMonTable {
			return &result{errno: 1146, msg: "Table 'mysql.mysync_repl_mon' doesn't exist"}
		}
		if s.ReplMonDelay != nil {
			return rs([]string{"delay"}, []any{*s.ReplMonDelay})
		}
		return rs([]string{"delay"}, []any{0})
	case "replmon_create":
		s.ReplMonTable = true
		return &result{}
	case "replmon_update":
		if !s.ReplMonTable {
			return &result{errno: 1146, msg: "Table 'mysql.mysync_repl_mon' doesn't exist"}
		}
		if !s.ReadOnly {
			s.ReplMonTS = float64(time.Now().UnixMilli()) / 1000
		}
		return &result{}
	case "custom_lag":
		// a configured lag query (e.g. a heartbeat table): answers even while replication is broken
		if s.Source == "" {
			return rs([]string{"Seconds_Behind_Master"})
		}
		if s.Lag != nil {
			return rs([]string{"Seconds_Behind_Master"}, []any{*s.Lag})
		}
		return rs([]string{"Seconds_Behind_Master"}, []any{0})
	case "ext_repl_settings":
		return &result{errno: 1146, msg: "Table 'mysql.replication_settings' doesn't exist"}
	}
	return &result{errno: 1064, msg: "fake: unhandled class " + c.Class}
}
