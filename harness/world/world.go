// Package world is the ground-truth model of a replicated MySQL cluster plus the MySQL wire
// front end the real mysync instances talk to. One mutex guards everything; every statement,
// fault and ground-truth change is appended to one totally ordered event log.
package world

import (
	"fmt"
	"math/rand"
	"net"
	"sort"
	"strings"
	"sync"
	"time"
)

// Server is the ground truth of one MySQL server.
type Server struct {
	Host    string
	UUID    string
	Version [3]int
	Up      bool

	ReadOnly, SuperRO, Offline bool
	SSMaster, SSSlave          bool
	WaitCount                  int
	SyncBinlog, FlushLog       int
	SettingsWriter             string // caller that last wrote sync_binlog / innodb_flush_log_at_trx_commit
	SyncBinlogWriter           string // caller that last wrote sync_binlog
	FlushLogWriter             string // caller that last wrote innodb_flush_log_at_trx_commit
	NoSemiSyncPlugin           bool   // semisync_status answers 1193
	FSReadOnly                 bool   // the data directory's filesystem is read-only: nothing can be committed

	Executed  GTIDSet
	Retrieved GTIDSet // received through the current channel (applied or not)

	Source       string // "" = no channel configured
	IORun        bool   // IO thread started
	SQLRun       bool   // SQL thread started
	LastIOErrno  int
	LastSQLErrno int
	SSReg        bool   // IO thread registered as semi-sync when it last started
	StickyErr    bool   // replication errors come back after every START (permanent breakage)
	StickySource string // if set, StickyErr holds only while the server points at this source
	// RecurErr: an applier error that comes back whenever the SQL thread starts, also after RESET + CHANGE SOURCE
	// (the offending transaction is fetched again by auto-position)
	RecurErr int
	// ResetBreaksStart: the first START REPLICA after a RESET REPLICA ALL fails with 1872 (relay log info repository
	// not initialised), the next one works - a real MySQL behaviour after resets with leftover relay logs
	ResetBreaksStart bool
	startBroken      bool

	Lag            *float64 // reported Seconds_Behind_Source when both threads run (nil => 0)
	DownloadRate   int64    // transactions per pump step the IO thread fetches (0 = unlimited)
	ApplyRate      int64    // transactions per pump step the SQL thread applies (0 = unlimited)
	BacklogBytes   int64    // extra bytes the IO thread still has to download (no transactions in them)
	BacklogDrain   int64    // bytes per pump step by which BacklogBytes shrinks while the IO thread runs
	BinlogInflate  int64    // extra size of this server's binlog
	Started        time.Time
	DisabledEvents [][3]string // schema, name, definer of replica-side-disabled events
	ReplMonTS      float64     // value of the repl_mon row (unix seconds), 0 = none
	ReplMonTable   bool
	ReplMonDelay   *int64 // answer of the delay query when set

	roWaiters int // SET super_read_only statements currently blocked on this server
}

// Writable reports whether client commits are accepted.
func (s *Server) Writable() bool { return s.Up && !s.ReadOnly && !s.Offline && !s.FSReadOnly }

// Positions returns Executed ∪ Retrieved.
func (s *Server) Positions() GTIDSet {
	p := s.Executed.Clone()
	p.Union(s.Retrieved)
	return p
}

func (s *Server) clone() *Server {
	c := *s
	c.Executed = s.Executed.Clone()
	c.Retrieved = s.Retrieved.Clone()
	if s.Lag != nil {
		l := *s.Lag
		c.Lag = &l
	}
	c.DisabledEvents = append([][3]string(nil), s.DisabledEvents...)
	return &c
}

// Txn is one client transaction.
type Txn struct {
	Host   string
	UUID   string
	Gno    int64
	Client int
	At     time.Duration
	State  string // pending acked unknown
	EndAt  time.Duration
	// Killed: the client's session was killed (KILL, offline_mode) while the commit waits for a semi-sync acknowledgement.
	// The client has lost its connection (outcome unknown to it for good), but the server thread keeps waiting - it still
	// blocks SET read_only and shows as waiting - until it is acknowledged or the master plugin is switched off (M7).
	Killed bool
}

// Event is one record of the global event log.
type Event struct {
	Seq   int64
	T     time.Duration // virtual time since the scenario started
	Kind  string        // sql zk dcs iter world file
	Who   string        // acting instance (caller) or "operator" / "world"
	Host  string        // target server (sql), or subject host
	Class string        // statement class / zk op / dcs method / iter state / world action
	Arg   string
	Res   string
	Err   int
	Phase string // call | ret | "" (instantaneous)
	Mut   bool   // mutating
	Occ   int    // occurrence number of the fault key (sql)
	ID    int64  // pairs call and ret
}

func (e Event) String() string {
	return fmt.Sprintf("%6d %9.3fs %-5s %-4s who=%s host=%s %s %s res=%s err=%d", e.Seq, e.T.Seconds(), e.Kind, e.Phase, e.Who, e.Host, e.Class, e.Arg, e.Res, e.Err)
}

// FaultAction tells the front end what to do with a statement.
type FaultAction struct {
	Kind  string        // "", fail, hang, delay (effect at once, reply late), slow (effect and reply late)
	Errno int           // for fail
	Delay time.Duration // for delay and slow
	// Before/After are world actions run under the world mutex before the statement is applied
	// resp. after it was applied (and before the reply is written).
	Before func(w *World)
	After  func(w *World)
	// DropReply closes the connection after applying without a reply.
	DropReply bool
}

// StmtCtx describes a statement to hooks.
type StmtCtx struct {
	Caller string
	Host   string
	Class  string
	Text   string
	Occ    int
	Mut    bool
	Errno  int    // set for AfterStmt
	Note   string // summary of the reply (AfterStmt)
	// Delayed is the injected delay of the reply: the statement took effect but the caller may
	// have run into its own deadline before the reply arrived.
	Delayed time.Duration
	// ReplyDropped: the statement took effect but the connection was dropped instead of a reply.
	ReplyDropped bool
}

// World is the whole simulated MySQL side.
type World struct {
	mu      sync.Mutex
	T0      time.Time
	Servers map[string]*Server
	cut     map[string]bool // "a>b": a cannot reach server b
	log     []Event
	seq     int64
	idseq   int64
	occ     map[string]int

	Txns       []*Txn
	pending    map[string][]*Txn
	Refused    int
	ClientsPer int // client sessions per server

	Dials        map[string]map[string]int // server -> caller -> dial attempts
	Unrecognised []string
	deadCaller   map[string]bool
	conns        map[string]map[net.Conn]bool // by caller
	srvConns     map[string]map[net.Conn]bool // by server
	openConns    map[string]int               // caller -> open connections (leak monitor)

	StmtLatency time.Duration
	// Jitter > 0 adds 0..Jitter-1 extra latency quanta to every reply (seeded): the loops of one process, which the
	// fixed latency keeps in a fixed lockstep pairing, then meet in varying pairings (race detector runs)
	Jitter int
	jrng   *rand.Rand

	// Fault decides the fate of a statement. Called under the world mutex.
	Fault func(c *StmtCtx) FaultAction
	// BeforeStmt / AfterStmt are monitor hooks called under the world mutex around the effect.
	BeforeStmt []func(w *World, c *StmtCtx)
	AfterStmt  []func(w *World, c *StmtCtx)
	// OnAck is called under the mutex whenever a transaction is acknowledged.
	OnAck []func(w *World, t *Txn)
	// OnChange is called under the mutex after every ground-truth change of a server
	// (statement effect, crash, restart, manual change).
	OnChange []func(w *World)

	Heartbeat int64 // advanced by the pump; read by the stall watchdog
}

// New creates an empty world.
func New() *World {
	return &World{
		T0:          time.Now(),
		Servers:     map[string]*Server{},
		cut:         map[string]bool{},
		occ:         map[string]int{},
		pending:     map[string][]*Txn{},
		deadCaller:  map[string]bool{},
		conns:       map[string]map[net.Conn]bool{},
		srvConns:    map[string]map[net.Conn]bool{},
		openConns:   map[string]int{},
		ClientsPer:  2,
		StmtLatency: 200 * time.Microsecond,
	}
}

// AddServer registers a server.
func (w *World) AddServer(host, uuid string) *Server {
	s := &Server{Host: host, UUID: uuid, Version: [3]int{8, 0, 32}, Up: true, ReadOnly: true, SuperRO: true,
		WaitCount: 1, SyncBinlog: 1, FlushLog: 1, Executed: NewSet(), Retrieved: NewSet(), Started: time.Now().Add(-time.Hour)}
	w.Servers[host] = s
	return s
}

// Lock / Unlock expose the world mutex to scenario code and monitors.
func (w *World) Lock()   { w.mu.Lock() }
func (w *World) Unlock() { w.mu.Unlock() }

// Now returns virtual time since scenario start.
func (w *World) Now() time.Duration { return time.Since(w.T0) }

// LogLocked appends an event (caller holds the mutex).
func (w *World) LogLocked(e Event) Event {
	w.seq++
	e.Seq = w.seq
	e.T = time.Since(w.T0)
	w.log = append(w.log, e)
	if e.Mut && (e.Kind == "world" || (e.Kind == "sql" && e.Phase == "ret")) {
		for _, f := range w.OnChange {
			f(w)
		}
	}
	return e
}

// Log appends an event.
func (w *World) Log(e Event) {
	w.mu.Lock()
	w.LogLocked(e)
	w.mu.Unlock()
}

// Events returns a copy of the log.
func (w *World) Events() []Event {
	w.mu.Lock()
	defer w.mu.Unlock()
	return append([]Event(nil), w.log...)
}

// EventsLocked returns the log itself (caller holds the mutex, must not modify).
func (w *World) EventsLocked() []Event { return w.log }

// Snapshot is a deep copy of all servers.
type Snapshot map[string]*Server

// SnapshotLocked copies the ground truth (caller holds the mutex).
func (w *World) SnapshotLocked() Snapshot {
	out := Snapshot{}
	for h, s := range w.Servers {
		out[h] = s.clone()
	}
	return out
}

// Snapshot copies the ground truth.
func (w *World) Snapshot() Snapshot {
	w.mu.Lock()
	defer w.mu.Unlock()
	return w.SnapshotLocked()
}

// --- reachability ---

// Cut makes server b unreachable from a (an instance host, a server host, or "client").
func (w *World) Cut(a, b string, on bool) {
	w.mu.Lock()
	w.CutLocked(a, b, on)
	w.mu.Unlock()
}

// CutLocked is Cut with the mutex held.
func (w *World) CutLocked(a, b string, on bool) {
	if on {
		w.cut[a+">"+b] = true
	} else {
		delete(w.cut, a+">"+b)
	}
	w.LogLocked(Event{Kind: "world", Who: "world", Host: b, Class: map[bool]string{true: "cut", false: "uncut"}[on], Arg: a + ">" + b})
}

// IsCutLocked reports whether the path a -> b was cut by Cut.
func (w *World) IsCutLocked(a, b string) bool { return w.cut[a+">"+b] }

// ReachLocked reports whether a can reach server b.
func (w *World) ReachLocked(a, b string) bool {
	if a == b {
		return true
	}
	return !w.cut[a+">"+b]
}

// Isolate cuts a host from all others in both directions (MySQL traffic only).
func (w *World) Isolate(host string, on bool) {
	w.mu.Lock()
	defer w.mu.Unlock()
	for h := range w.Servers {
		if h != host {
			w.CutLocked(host, h, on)
			w.CutLocked(h, host, on)
		}
	}
	w.CutLocked("client", host, on)
}

// --- server life cycle ---

// Crash kills a server: connections reset, pending commits unknown, binlogged data kept.
func (w *World) Crash(host string) {
	w.mu.Lock()
	toClose := w.crashLocked(host)
	w.mu.Unlock()
	for _, c := range toClose {
		c.Close()
	}
}

func (w *World) crashLocked(host string) []net.Conn {
	s := w.Servers[host]
	if s == nil || !s.Up {
		return nil
	}
	s.Up = false
	w.failPendingLocked(host, "unknown")
	w.LogLocked(Event{Kind: "world", Who: "world", Host: host, Class: "crash", Mut: true})
	var toClose []net.Conn
	for c := range w.srvConns[host] {
		toClose = append(toClose, c)
	}
	w.srvConns[host] = nil
	return toClose
}

// Restart brings a crashed server back with the my.cnf values the project requires.
func (w *World) Restart(host string) {
	w.mu.Lock()
	defer w.mu.Unlock()
	w.restartLocked(host)
}

func (w *World) restartLocked(host string) {
	s := w.Servers[host]
	if s == nil || s.Up {
		return
	}
	s.Up = true
	s.ReadOnly, s.SuperRO, s.Offline = true, true, true
	s.SSMaster, s.SSSlave, s.SSReg = false, false, false
	s.WaitCount = 1
	s.SyncBinlog, s.FlushLog, s.SettingsWriter, s.SyncBinlogWriter, s.FlushLogWriter = 1, 1, "", "", ""
	s.Started = time.Now()
	if s.Source != "" {
		s.IORun, s.SQLRun = true, true // replication threads auto-start
		s.SSReg = false
	}
	// relay_log_recovery=ON: unapplied relay log is discarded and fetched again
	s.Retrieved = NewSet()
	w.LogLocked(Event{Kind: "world", Who: "world", Host: host, Class: "restart", Mut: true})
}

// Reclone emulates the resetup tool: the host is rebuilt from src's data and restarted
// without any replication configuration.
func (w *World) Reclone(host, src string) {
	w.mu.Lock()
	toClose := w.crashLocked(host)
	s, m := w.Servers[host], w.Servers[src]
	if s != nil && m != nil {
		s.Executed = m.Executed.Clone()
		s.Retrieved = NewSet()
		s.Source, s.IORun, s.SQLRun, s.LastIOErrno, s.LastSQLErrno = "", false, false, 0, 0
		s.BacklogBytes = 0
		w.LogLocked(Event{Kind: "world", Who: "resetup-tool", Host: host, Class: "reclone", Arg: src, Mut: true})
		w.restartLocked(host)
	}
	w.mu.Unlock()
	for _, c := range toClose {
		c.Close()
	}
}

// KillCaller makes every present and future connection of a caller fail (process death).
func (w *World) KillCaller(caller string) {
	w.mu.Lock()
	toClose := w.KillCallerLocked(caller)
	w.mu.Unlock()
	for _, c := range toClose {
		c.Close()
	}
}

// KillCallerLocked marks the caller dead and returns its connections for closing outside the mutex.
func (w *World) KillCallerLocked(caller string) []net.Conn {
	w.deadCaller[caller] = true
	var toClose []net.Conn
	for c := range w.conns[caller] {
		toClose = append(toClose, c)
	}
	w.conns[caller] = nil
	w.LogLocked(Event{Kind: "world", Who: "world", Host: caller, Class: "kill-caller"})
	return toClose
}

// CloseLater closes connections from a fresh goroutine (for use under the mutex).
func CloseLater(cs []net.Conn) {
	if len(cs) == 0 {
		return
	}
	go func() {
		for _, c := range cs {
			c.Close()
		}
	}()
}

// OpenConns returns the number of open connections per caller.
func (w *World) OpenConns() map[string]int {
	w.mu.Lock()
	defer w.mu.Unlock()
	out := map[string]int{}
	for k, v := range w.openConns {
		out[k] = v
	}
	return out
}

// --- commits and semi-sync ---

func (w *World) failPendingLocked(host, state string) {
	for _, t := range w.pending[host] {
		if t.Killed {
			continue // its client went away long ago; nothing is reported to anybody
		}
		t.State = state
		t.EndAt = time.Since(w.T0)
		if state == "acked" {
			for _, f := range w.OnAck {
				f(w, t)
			}
		}
	}
	if n := len(w.pending[host]); n > 0 {
		w.LogLocked(Event{Kind: "world", Who: "world", Host: host, Class: "pending-" + state, Arg: fmt.Sprint(n)})
	}
	w.pending[host] = nil
}

// killPendingLocked marks the waiting commits of host (all, or those of one session) as killed: unknown to the client,
// still waiting on the server (M7).
func (w *World) killPendingLocked(host string, session int) {
	n := 0
	for _, t := range w.pending[host] {
		if t.Killed || (session >= 0 && 1000+t.Client != session) {
			continue
		}
		t.Killed, t.State, t.EndAt = true, "unknown", time.Since(w.T0)
		n++
	}
	if n > 0 {
		w.LogLocked(Event{Kind: "world", Who: "world", Host: host, Class: "pending-killed", Arg: fmt.Sprint(n)})
	}
}

// PendingLocked returns the number of commits waiting for acknowledgement on host.
func (w *World) PendingLocked(host string) int { return len(w.pending[host]) }

// LivePendingLocked counts the waiting commits whose client is still connected (releasing them tells a client "ok").
func (w *World) LivePendingLocked(host string) int {
	n := 0
	for _, t := range w.pending[host] {
		if !t.Killed {
			n++
		}
	}
	return n
}

// Commit tries one client commit on host. Result: "ack", "pending", "refused", "busy".
func (w *World) Commit(host string, client int) string {
	w.mu.Lock()
	defer w.mu.Unlock()
	s := w.Servers[host]
	if s == nil || !s.Writable() || !w.ReachLocked("client", host) {
		w.Refused++
		return "refused"
	}
	if s.roWaiters > 0 {
		return "busy" // a pending SET read_only blocks new commits
	}
	for _, t := range w.pending[host] {
		if t.Client == client && !t.Killed {
			return "busy"
		}
	}
	gno := s.Executed.Max(s.UUID) + 1
	s.Executed.Add(s.UUID, gno)
	t := &Txn{Host: host, UUID: s.UUID, Gno: gno, Client: client, At: time.Since(w.T0)}
	w.Txns = append(w.Txns, t)
	if s.SSMaster && s.WaitCount > 0 {
		t.State = "pending"
		w.pending[host] = append(w.pending[host], t)
		w.ackLocked(host)
		if t.State == "acked" {
			return "ack"
		}
		return "pending"
	}
	t.State = "acked"
	t.EndAt = t.At
	for _, f := range w.OnAck {
		f(w, t)
	}
	return "ack"
}

// ackersLocked counts semi-sync replicas of host that hold transaction t.
func (w *World) ackersLocked(host string, t *Txn) int {
	n := 0
	for _, r := range w.Servers {
		if r.Up && r.Source == host && r.IORun && r.SSReg && w.ReachLocked(r.Host, host) &&
			(r.Retrieved.Has(t.UUID, t.Gno) || r.Executed.Has(t.UUID, t.Gno)) {
			n++
		}
	}
	return n
}

func (w *World) ackLocked(host string) {
	m := w.Servers[host]
	if m == nil || !m.Up {
		return
	}
	var keep []*Txn
	for _, t := range w.pending[host] {
		if !m.SSMaster || m.WaitCount <= 0 || w.ackersLocked(host, t) >= m.WaitCount {
			if t.Killed {
				continue
			}
			t.State = "acked"
			t.EndAt = time.Since(w.T0)
			for _, f := range w.OnAck {
				f(w, t)
			}
		} else {
			keep = append(keep, t)
		}
	}
	w.pending[host] = keep
}

// --- replication dynamics ---

// sourceConnectedLocked reports whether r's IO thread has a live connection to its source.
func (w *World) sourceConnectedLocked(r *Server) bool {
	if r.Source == "" || !r.IORun || r.LastIOErrno != 0 {
		return false
	}
	m := w.Servers[r.Source]
	return m != nil && m.Up && w.ReachLocked(r.Host, r.Source)
}

// Step advances replication and acknowledgements by one pump step.
func (w *World) Step() {
	w.mu.Lock()
	defer w.mu.Unlock()
	w.StepLocked()
}

// StepLocked is Step for callers that hold the mutex (fault hooks that let replication move at a chosen instant).
func (w *World) StepLocked() {
	w.Heartbeat++
	hosts := make([]string, 0, len(w.Servers))
	for h := range w.Servers {
		hosts = append(hosts, h)
	}
	sort.Strings(hosts)
	for _, h := range hosts {
		r := w.Servers[h]
		if !r.Up || r.Source == "" {
			continue
		}
		if w.sourceConnectedLocked(r) {
			m := w.Servers[r.Source]
			missing := m.Executed.Minus(r.Executed).Minus(r.Retrieved)
			if !missing.Empty() {
				if r.DownloadRate > 0 {
					missing = missing.TakeFirst(r.DownloadRate)
				}
				r.Retrieved.Union(missing)
			}
			if r.BacklogBytes > 0 && r.BacklogDrain > 0 {
				r.BacklogBytes -= r.BacklogDrain
				if r.BacklogBytes < 0 {
					r.BacklogBytes = 0
				}
			}
		}
		if r.SQLRun && r.LastSQLErrno == 0 {
			todo := r.Retrieved.Minus(r.Executed)
			if !todo.Empty() {
				if r.ApplyRate > 0 {
					todo = todo.TakeFirst(r.ApplyRate)
				}
				r.Executed.Union(todo)
			}
		}
	}
	for _, h := range hosts {
		if len(w.pending[h]) > 0 {
			w.ackLocked(h)
		}
	}
}

// BinlogSizeLocked is the size of a server's (single) binlog file.
func (w *World) BinlogSizeLocked(s *Server) int64 {
	return 4 + 1000*s.Executed.Count() + s.BinlogInflate
}

// readPosLocked is the position in the source's binlog up to which r has downloaded.
func (w *World) readPosLocked(r *Server) int64 {
	m := w.Servers[r.Source]
	if m == nil {
		return 4
	}
	missing := m.Executed.Minus(r.Executed).Minus(r.Retrieved).Count()
	pos := w.BinlogSizeLocked(m) - 1000*missing - r.BacklogBytes
	if pos < 4 {
		pos = 4
	}
	return pos
}

// ReadPosLocked is the exported form of readPosLocked.
func (w *World) ReadPosLocked(r *Server) int64 { return w.readPosLocked(r) }

// --- operator SQL ---

// Manual applies a change to a server as an operator would through a SQL console.
func (w *World) Manual(host, what string, f func(s *Server)) {
	w.mu.Lock()
	defer w.mu.Unlock()
	if s := w.Servers[host]; s != nil {
		f(s)
		w.LogLocked(Event{Kind: "world", Who: "operator", Host: host, Class: "manual", Arg: what, Mut: true})
	}
}

// --- helpers for reports ---

// Describe prints one line per server.
func (w *World) Describe() string {
	w.mu.Lock()
	defer w.mu.Unlock()
	return w.DescribeLocked()
}

// DescribeLocked prints one line per server (mutex held).
func (w *World) DescribeLocked() string {
	hosts := make([]string, 0, len(w.Servers))
	for h := range w.Servers {
		hosts = append(hosts, h)
	}
	sort.Strings(hosts)
	var b strings.Builder
	for _, h := range hosts {
		s := w.Servers[h]
		fmt.Fprintf(&b, "%s up=%v ro=%v sro=%v off=%v ssm=%v sss=%v wc=%d src=%q io=%v sql=%v ssreg=%v ioerr=%d sqlerr=%d sb=%d fl=%d exec=%s retr=%s pend=%d\n",
			h, s.Up, s.ReadOnly, s.SuperRO, s.Offline, s.SSMaster, s.SSSlave, s.WaitCount, s.Source, s.IORun, s.SQLRun, s.SSReg,
			s.LastIOErrno, s.LastSQLErrno, s.SyncBinlog, s.FlushLog, s.Executed.OneLine(), s.Retrieved.Minus(s.Executed).OneLine(), len(w.pending[h]))
	}
	return b.String()
}

// CrashLockedExported crashes a server with the mutex held and returns its connections, which
// the caller must close outside the mutex (see CloseLater).
func (w *World) CrashLockedExported(host string) []net.Conn { return w.crashLocked(host) }

// RestartLockedExported brings a crashed server back (caller holds the mutex).
func (w *World) RestartLockedExported(host string) { w.restartLocked(host) }
