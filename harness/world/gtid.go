package world

import (
	"fmt"
	"sort"
	"strconv"
	"strings"
)

// GTIDSet is the harness's own representation of a MySQL GTID set: per source UUID a sorted
// list of disjoint, non-adjacent closed intervals [Lo,Hi]. It deliberately shares no code with
// the go-mysql library used by the code under test.
type GTIDSet map[string][]Iv

// Iv is a closed interval of transaction numbers.
type Iv struct{ Lo, Hi int64 }

// NewSet returns an empty set.
func NewSet() GTIDSet { return GTIDSet{} }

// Clone returns a deep copy.
func (s GTIDSet) Clone() GTIDSet {
	out := GTIDSet{}
	for u, ivs := range s {
		out[u] = append([]Iv(nil), ivs...)
	}
	return out
}

func normalize(ivs []Iv) []Iv {
	if len(ivs) == 0 {
		return nil
	}
	sort.Slice(ivs, func(i, j int) bool { return ivs[i].Lo < ivs[j].Lo })
	out := []Iv{ivs[0]}
	for _, iv := range ivs[1:] {
		last := &out[len(out)-1]
		if iv.Lo <= last.Hi+1 {
			if iv.Hi > last.Hi {
				last.Hi = iv.Hi
			}
		} else {
			out = append(out, iv)
		}
	}
	return out
}

// AddRange adds [lo,hi] of uuid.
func (s GTIDSet) AddRange(uuid string, lo, hi int64) {
	if hi < lo {
		return
	}
	s[uuid] = normalize(append(s[uuid], Iv{lo, hi}))
}

// Add adds one transaction.
func (s GTIDSet) Add(uuid string, gno int64) { s.AddRange(uuid, gno, gno) }

// Has reports membership.
func (s GTIDSet) Has(uuid string, gno int64) bool {
	for _, iv := range s[uuid] {
		if gno >= iv.Lo && gno <= iv.Hi {
			return true
		}
	}
	return false
}

// Max returns the largest gno of uuid (0 if none).
func (s GTIDSet) Max(uuid string) int64 {
	ivs := s[uuid]
	if len(ivs) == 0 {
		return 0
	}
	return ivs[len(ivs)-1].Hi
}

// Union adds all of o into s.
func (s GTIDSet) Union(o GTIDSet) {
	for u, ivs := range o {
		s[u] = normalize(append(append([]Iv(nil), s[u]...), ivs...))
	}
}

func minusIvs(a, b []Iv) []Iv {
	var out []Iv
	for _, x := range a {
		lo := x.Lo
		for _, y := range b {
			if y.Hi < lo || y.Lo > x.Hi {
				continue
			}
			if y.Lo > lo {
				out = append(out, Iv{lo, y.Lo - 1})
			}
			if y.Hi+1 > lo {
				lo = y.Hi + 1
			}
			if lo > x.Hi {
				break
			}
		}
		if lo <= x.Hi {
			out = append(out, Iv{lo, x.Hi})
		}
	}
	return out
}

// Minus returns s \ o.
func (s GTIDSet) Minus(o GTIDSet) GTIDSet {
	out := GTIDSet{}
	for u, ivs := range s {
		d := minusIvs(ivs, o[u])
		if len(d) > 0 {
			out[u] = d
		}
	}
	return out
}

// Empty reports whether the set has no transaction.
func (s GTIDSet) Empty() bool {
	for _, ivs := range s {
		if len(ivs) > 0 {
			return false
		}
	}
	return true
}

// SubsetOf reports s ⊆ o.
func (s GTIDSet) SubsetOf(o GTIDSet) bool { return s.Minus(o).Empty() }

// Equal reports set equality.
func (s GTIDSet) Equal(o GTIDSet) bool { return s.SubsetOf(o) && o.SubsetOf(s) }

// Count returns the number of transactions.
func (s GTIDSet) Count() int64 {
	var n int64
	for _, ivs := range s {
		for _, iv := range ivs {
			n += iv.Hi - iv.Lo + 1
		}
	}
	return n
}

// TakeFirst removes and returns up to n transactions (lowest uuid, lowest gno first).
func (s GTIDSet) TakeFirst(n int64) GTIDSet {
	out := GTIDSet{}
	uuids := make([]string, 0, len(s))
	for u := range s {
		uuids = append(uuids, u)
	}
	sort.Strings(uuids)
	for _, u := range uuids {
		for n > 0 && len(s[u]) > 0 {
			iv := s[u][0]
			cnt := iv.Hi - iv.Lo + 1
			if cnt > n {
				cnt = n
			}
			out.AddRange(u, iv.Lo, iv.Lo+cnt-1)
			n -= cnt
			if iv.Lo+cnt > iv.Hi {
				s[u] = s[u][1:]
			} else {
				s[u][0].Lo = iv.Lo + cnt
			}
		}
		if len(s[u]) == 0 {
			delete(s, u)
		}
	}
	return out
}

// String prints the set the way MySQL does ("uuid:1-5:7,\nuuid2:1").
func (s GTIDSet) String() string {
	uuids := make([]string, 0, len(s))
	for u, ivs := range s {
		if len(ivs) > 0 {
			uuids = append(uuids, u)
		}
	}
	sort.Strings(uuids)
	parts := make([]string, 0, len(uuids))
	for _, u := range uuids {
		var b strings.Builder
		b.WriteString(u)
		for _, iv := range s[u] {
			if iv.Lo == iv.Hi {
				fmt.Fprintf(&b, ":%d", iv.Lo)
			} else {
				fmt.Fprintf(&b, ":%d-%d", iv.Lo, iv.Hi)
			}
		}
		parts = append(parts, b.String())
	}
	return strings.Join(parts, ",\n")
}

// OneLine prints the set without line breaks.
func (s GTIDSet) OneLine() string { return strings.ReplaceAll(s.String(), "\n", "") }

// ParseSet parses MySQL GTID text (no tags).
func ParseSet(text string) (GTIDSet, error) {
	out := GTIDSet{}
	text = strings.ReplaceAll(text, "\n", "")
	text = strings.TrimSpace(text)
	if text == "" {
		return out, nil
	}
	for _, part := range strings.Split(text, ",") {
		f := strings.Split(strings.TrimSpace(part), ":")
		if len(f) < 2 {
			return nil, fmt.Errorf("bad gtid part %q", part)
		}
		for _, r := range f[1:] {
			lohi := strings.SplitN(r, "-", 2)
			lo, err := strconv.ParseInt(lohi[0], 10, 64)
			if err != nil {
				return nil, err
			}
			hi := lo
			if len(lohi) == 2 {
				if hi, err = strconv.ParseInt(lohi[1], 10, 64); err != nil {
					return nil, err
				}
			}
			out.AddRange(f[0], lo, hi)
		}
	}
	return out, nil
}

// MustParse parses or panics (scenario construction).
func MustParse(text string) GTIDSet {
	s, err := ParseSet(text)
	if err != nil {
		panic(err)
	}
	return s
}
