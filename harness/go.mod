module github.com/yandex/mysync/verif

go 1.25.0

require (
	github.com/anishathalye/porcupine v1.3.0
	github.com/go-sql-driver/mysql v1.10.0
	github.com/go-zookeeper/zk v1.0.4
	github.com/yandex/mysync v0.0.0
)

require (
	filippo.io/edwards25519 v1.2.0 // indirect
	github.com/BurntSushi/toml v1.6.0 // indirect
	github.com/cenkalti/backoff/v4 v4.3.0 // indirect
	github.com/go-mysql-org/go-mysql v1.15.0 // indirect
	github.com/goccy/go-yaml v1.19.2 // indirect
	github.com/gofrs/flock v0.13.0 // indirect
	github.com/google/uuid v1.6.0 // indirect
	github.com/heetch/confita v0.11.0 // indirect
	github.com/jmoiron/sqlx v1.4.0 // indirect
	github.com/mattn/go-colorable v0.1.14 // indirect
	github.com/mattn/go-isatty v0.0.20 // indirect
	github.com/pingcap/errors v0.11.5-0.20260310054046-9c8b3586e4b2 // indirect
	github.com/pkg/errors v0.9.1 // indirect
	github.com/rs/zerolog v1.35.1 // indirect
	github.com/shirou/gopsutil/v3 v3.24.5 // indirect
	github.com/tklauser/go-sysconf v0.3.16 // indirect
	github.com/tklauser/numcpus v0.11.0 // indirect
	go.uber.org/atomic v1.11.0 // indirect
	golang.org/x/sys v0.43.0 // indirect
	gopkg.in/yaml.v2 v2.4.0 // indirect
)

replace github.com/yandex/mysync => /repo
