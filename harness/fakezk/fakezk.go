// Package fakezk is a single-server, linearizable ZooKeeper speaking the jute wire protocol
// for exactly the requests the go-zookeeper client sends on behalf of mysync's zkDCS.
// One mutex serialises all operations, so the log order is the linearization order.
// No pipe I/O happens while the mutex is held.
package fakezk

import (
	"encoding/binary"
	"errors"
	"fmt"
	"io"
	"net"
	"sort"
	"strings"
	"sync"
	"time"
)

// Error codes of the ZooKeeper protocol used here.
const (
	ErrOK                      int32 = 0
	ErrNoNode                  int32 = -101
	ErrBadVersion              int32 = -103
	ErrNoChildrenForEphemerals int32 = -108
	ErrNodeExists              int32 = -110
	ErrNotEmpty                int32 = -111
	ErrUnimplemented           int32 = -6
	ErrAPIError                int32 = -100
)

// Op codes.
const (
	opCreate       = 1
	opDelete       = 2
	opExists       = 3
	opGetData      = 4
	opSetData      = 5
	opGetChildren  = 8
	opPing         = 11
	opGetChildren2 = 12
	opSetAuth      = 100
	opSetWatches   = 101
	opClose        = -11
)

func opName(op int32) string {
	switch op {
	case opCreate:
		return "create"
	case opDelete:
		return "delete"
	case opExists:
		return "exists"
	case opGetData:
		return "get"
	case opSetData:
		return "set"
	case opGetChildren, opGetChildren2:
		return "children"
	case opPing:
		return "ping"
	case opSetAuth:
		return "auth"
	case opSetWatches:
		return "setwatches"
	case opClose:
		return "close"
	}
	return fmt.Sprintf("op%d", op)
}

type znode struct {
	data     []byte
	version  int32
	cversion int32
	eph      int64
	children map[string]*znode
	czxid    int64
	mzxid    int64
}

type session struct {
	id      int64
	client  string
	timeout time.Duration
	timer   *time.Timer
	conn    net.Conn
	dead    bool
}

// Rec is one record of the server log (mutations and session events only).
type Rec struct {
	Seq    int64
	T      time.Time
	Client string
	Sess   int64
	Op     string // create delete set session-open session-expire session-close expire-delete
	Path   string
	Data   string
	Eph    bool
	Err    int32
}

// Action is what a hook asks the server to do with a request.
type Action int

const (
	Pass       Action = iota
	DropBefore        // close the connection without applying
	DropAfter         // apply, then close the connection without replying
	Fail              // reply with an API error without applying
)

// Req describes a request as seen by hooks.
type Req struct {
	Client string
	Sess   int64
	Op     string
	Path   string
	Data   []byte
	Eph    bool
}

// Server is the fake ZooKeeper.
type Server struct {
	mu       sync.Mutex
	root     *znode
	zxid     int64
	seq      int64
	nextSess int64
	sessions map[int64]*session
	log      []Rec
	down     bool
	cut      map[string]bool // client -> refused (connections reset + dials refused)
	mute     map[string]bool // client -> requests read but never answered (zkDCS-only engine)
	conns    map[string]map[net.Conn]bool
	live     map[string]map[net.Conn]bool // client -> established, session-bearing connections

	// HandshakeLatency is the virtual time a session handshake takes.
	HandshakeLatency time.Duration
	// Before is called under the server mutex before a request is applied. It must not block
	// and must not call back into the server.
	Before func(r Req) Action
	// After is called after the reply has been written (outside the mutex).
	After func(r Req, errCode int32)
	// Delay returns a delay applied to the reply of a request (zkDCS-only engine).
	Delay func(r Req) time.Duration
	// OnMutation is called under the mutex after a mutation (or session event) was applied and logged.
	OnMutation func(rec Rec)
}

// New returns an empty server.
func New() *Server {
	return &Server{
		root:             &znode{children: map[string]*znode{}},
		sessions:         map[int64]*session{},
		nextSess:         0x1000,
		HandshakeLatency: 2 * time.Millisecond,
		cut:              map[string]bool{},
		mute:             map[string]bool{},
		conns:            map[string]map[net.Conn]bool{},
		live:             map[string]map[net.Conn]bool{},
	}
}

func (z *Server) appendLog(r Rec) {
	z.seq++
	r.Seq = z.seq
	r.T = time.Now()
	z.log = append(z.log, r)
	if z.OnMutation != nil {
		z.OnMutation(r)
	}
}

// Seq returns the sequence number of the last log record (a logical clock for client-boundary histories).
func (z *Server) Seq() int64 {
	z.mu.Lock()
	defer z.mu.Unlock()
	return z.seq
}

// Tick appends a marker record and returns its sequence number, so that client-boundary events
// get distinct, totally ordered logical timestamps even when no mutation happens in between.
func (z *Server) Tick() int64 {
	z.mu.Lock()
	defer z.mu.Unlock()
	z.seq++
	return z.seq
}

// Log returns a copy of the server log.
func (z *Server) Log() []Rec {
	z.mu.Lock()
	defer z.mu.Unlock()
	return append([]Rec(nil), z.log...)
}

func splitPath(path string) []string {
	if path == "/" || path == "" {
		return nil
	}
	return strings.Split(strings.TrimPrefix(path, "/"), "/")
}

// lookup returns node, parent, last name. parent is nil when an intermediate node is missing.
func (z *Server) lookup(path string) (*znode, *znode, string) {
	parts := splitPath(path)
	if len(parts) == 0 {
		return z.root, nil, ""
	}
	cur := z.root
	for i, p := range parts {
		n, ok := cur.children[p]
		if !ok {
			if i == len(parts)-1 {
				return nil, cur, p
			}
			return nil, nil, parts[len(parts)-1]
		}
		if i == len(parts)-1 {
			return n, cur, p
		}
		cur = n
	}
	return nil, nil, ""
}

func (z *Server) expireLocked(s *session, why string) {
	if s.dead {
		return
	}
	s.dead = true
	delete(z.sessions, s.id)
	if s.timer != nil {
		s.timer.Stop()
	}
	z.zxid++
	z.appendLog(Rec{Client: s.client, Sess: s.id, Op: why})
	var walk func(n *znode, path string)
	walk = func(n *znode, path string) {
		names := make([]string, 0, len(n.children))
		for name := range n.children {
			names = append(names, name)
		}
		sort.Strings(names)
		for _, name := range names {
			c := n.children[name]
			if c.eph == s.id {
				delete(n.children, name)
				n.cversion++
				z.appendLog(Rec{Client: s.client, Sess: s.id, Op: "expire-delete", Path: path + "/" + name, Eph: true})
			} else {
				walk(c, path+"/"+name)
			}
		}
	}
	walk(z.root, "")
	if s.conn != nil {
		if z.live[s.client] != nil {
			delete(z.live[s.client], s.conn)
		}
		s.conn.Close()
	}
}

// ExpireClient expires all sessions of a client at once (used when the scenario has waited out
// the session timeout itself or models an administrative expiry).
func (z *Server) ExpireClient(client string) {
	z.mu.Lock()
	defer z.mu.Unlock()
	for _, s := range z.sessions {
		if s.client == client {
			z.expireLocked(s, "session-expire")
		}
	}
}

// Tree dumps path -> data.
func (z *Server) Tree() map[string]string {
	z.mu.Lock()
	defer z.mu.Unlock()
	out := map[string]string{}
	var walk func(n *znode, path string)
	walk = func(n *znode, path string) {
		for name, c := range n.children {
			p := path + "/" + name
			out[p] = string(c.data)
			walk(c, p)
		}
	}
	walk(z.root, "")
	return out
}

// NodeInfo describes one znode.
type NodeInfo struct {
	Data     string
	Eph      int64
	Version  int32
	Children []string
	Owner    string // client owning the ephemeral session, if any
}

// Stat returns information about a znode, or nil.
func (z *Server) Stat(path string) *NodeInfo {
	z.mu.Lock()
	defer z.mu.Unlock()
	return z.statLocked(path)
}

func (z *Server) statLocked(path string) *NodeInfo {
	n, _, _ := z.lookup(path)
	if n == nil {
		return nil
	}
	ni := &NodeInfo{Data: string(n.data), Eph: n.eph, Version: n.version}
	for k := range n.children {
		ni.Children = append(ni.Children, k)
	}
	sort.Strings(ni.Children)
	if n.eph != 0 {
		if s := z.sessions[n.eph]; s != nil {
			ni.Owner = s.client
		}
	}
	return ni
}

// Locked runs f under the server mutex with accessors that do not lock again.
func (z *Server) Locked(f func(stat func(path string) *NodeInfo)) {
	z.mu.Lock()
	defer z.mu.Unlock()
	f(z.statLocked)
}

// --- operator / external writes (logged with the given identity) ---

func (z *Server) applyCreate(client string, sess int64, path string, data []byte, eph bool) int32 {
	n, par, name := z.lookup(path)
	switch {
	case n != nil:
		return ErrNodeExists
	case par == nil:
		return ErrNoNode
	case par.eph != 0:
		return ErrNoChildrenForEphemerals
	}
	z.zxid++
	nn := &znode{data: data, children: map[string]*znode{}, czxid: z.zxid, mzxid: z.zxid}
	if eph {
		nn.eph = sess
	}
	par.children[name] = nn
	par.cversion++
	z.appendLog(Rec{Client: client, Sess: sess, Op: "create", Path: path, Data: string(data), Eph: eph})
	return ErrOK
}

func (z *Server) applyDelete(client string, sess int64, path string, ver int32) int32 {
	n, par, name := z.lookup(path)
	switch {
	case n == nil:
		return ErrNoNode
	case ver != -1 && ver != n.version:
		return ErrBadVersion
	case len(n.children) > 0:
		return ErrNotEmpty
	}
	z.zxid++
	delete(par.children, name)
	par.cversion++
	z.appendLog(Rec{Client: client, Sess: sess, Op: "delete", Path: path, Data: string(n.data), Eph: n.eph != 0})
	return ErrOK
}

func (z *Server) applySet(client string, sess int64, path string, data []byte, ver int32) int32 {
	n, _, _ := z.lookup(path)
	switch {
	case n == nil:
		return ErrNoNode
	case ver != -1 && ver != n.version:
		return ErrBadVersion
	}
	z.zxid++
	n.data = data
	n.version++
	n.mzxid = z.zxid
	z.appendLog(Rec{Client: client, Sess: sess, Op: "set", Path: path, Data: string(data), Eph: n.eph != 0})
	return ErrOK
}

// Put creates the path (with parents) or overwrites it, as an external tool would.
func (z *Server) Put(client, path string, data string) {
	z.mu.Lock()
	defer z.mu.Unlock()
	parts := splitPath(path)
	cur := ""
	for i, p := range parts {
		cur += "/" + p
		n, _, _ := z.lookup(cur)
		last := i == len(parts)-1
		if n == nil {
			d := []byte{}
			if last {
				d = []byte(data)
			}
			z.applyCreate(client, 0, cur, d, false)
		} else if last {
			z.applySet(client, 0, cur, []byte(data), -1)
		}
	}
}

// CreateIfAbsent creates path (parents must exist) and reports whether it was created.
func (z *Server) CreateIfAbsent(client, path, data string) bool {
	z.mu.Lock()
	defer z.mu.Unlock()
	return z.applyCreate(client, 0, path, []byte(data), false) == ErrOK
}

// Remove deletes a path (recursively) as an external tool would; reports whether it existed.
func (z *Server) Remove(client, path string) bool {
	z.mu.Lock()
	defer z.mu.Unlock()
	return z.removeLocked(client, path)
}

func (z *Server) removeLocked(client, path string) bool {
	n, _, _ := z.lookup(path)
	if n == nil {
		return false
	}
	for name := range n.children {
		z.removeLocked(client, path+"/"+name)
	}
	return z.applyDelete(client, 0, path, -1) == ErrOK
}

// Get reads data of a path.
func (z *Server) Get(path string) (string, bool) {
	z.mu.Lock()
	defer z.mu.Unlock()
	n, _, _ := z.lookup(path)
	if n == nil {
		return "", false
	}
	return string(n.data), true
}

// Children lists the children of a path.
func (z *Server) Children(path string) []string {
	ni := z.Stat(path)
	if ni == nil {
		return nil
	}
	return ni.Children
}

// --- faults ---

// Cut resets all connections of a client and refuses its dials until healed.
func (z *Server) Cut(client string, on bool) {
	z.mu.Lock()
	var toClose []net.Conn
	z.cut[client] = on
	if on {
		for c := range z.conns[client] {
			toClose = append(toClose, c)
		}
		z.conns[client] = nil
		z.live[client] = nil
	}
	z.mu.Unlock()
	for _, c := range toClose {
		c.Close()
	}
}

// Outage cuts every client (present and future) while on.
func (z *Server) Outage(on bool) {
	z.mu.Lock()
	var toClose []net.Conn
	z.down = on
	if on {
		for cl, m := range z.conns {
			for c := range m {
				toClose = append(toClose, c)
			}
			z.conns[cl] = nil
			z.live[cl] = nil
		}
	}
	z.mu.Unlock()
	for _, c := range toClose {
		c.Close()
	}
}

// Mute makes the server read a client's requests without ever answering (E2 only).
func (z *Server) Mute(client string, on bool) {
	z.mu.Lock()
	z.mute[client] = on
	z.mu.Unlock()
}

// ResetConns closes the client's current connections without refusing new ones.
func (z *Server) ResetConns(client string) {
	z.mu.Lock()
	var toClose []net.Conn
	for c := range z.conns[client] {
		toClose = append(toClose, c)
	}
	z.conns[client] = nil
	z.live[client] = nil
	z.mu.Unlock()
	for _, c := range toClose {
		c.Close()
	}
}

// Established reports whether the client has a served connection with a live session.
func (z *Server) Established(client string) bool {
	z.mu.Lock()
	defer z.mu.Unlock()
	return len(z.live[client]) > 0 && !z.down && !z.cut[client] && !z.mute[client]
}

// IsCut reports whether dials by the client are refused.
func (z *Server) IsCut(client string) bool {
	z.mu.Lock()
	defer z.mu.Unlock()
	return z.down || z.cut[client]
}

// Sessions returns the live session ids per client.
func (z *Server) Sessions() map[string][]int64 {
	z.mu.Lock()
	defer z.mu.Unlock()
	out := map[string][]int64{}
	for id, s := range z.sessions {
		out[s.client] = append(out[s.client], id)
	}
	return out
}

// Shutdown stops all session timers and closes all connections.
func (z *Server) Shutdown() {
	z.mu.Lock()
	var toClose []net.Conn
	for _, s := range z.sessions {
		if s.timer != nil {
			s.timer.Stop()
		}
	}
	for _, m := range z.conns {
		for c := range m {
			toClose = append(toClose, c)
		}
	}
	z.down = true
	z.mu.Unlock()
	for _, c := range toClose {
		c.Close()
	}
}

// Dial returns the client side of a pipe served by a goroutine started here (so that it lives
// in the caller's synctest bubble).
func (z *Server) Dial(client string) (net.Conn, error) {
	z.mu.Lock()
	refused := z.down || z.cut[client]
	z.mu.Unlock()
	if refused {
		return nil, errors.New("fakezk: connection refused")
	}
	a, b := net.Pipe()
	go z.Serve(b, client)
	return a, nil
}

// --- codec ---

type dec struct {
	b   []byte
	err error
}

func (d *dec) i32() int32 {
	if len(d.b) < 4 {
		d.err = io.ErrUnexpectedEOF
		d.b = nil
		return 0
	}
	v := int32(binary.BigEndian.Uint32(d.b))
	d.b = d.b[4:]
	return v
}
func (d *dec) i64() int64 {
	if len(d.b) < 8 {
		d.err = io.ErrUnexpectedEOF
		d.b = nil
		return 0
	}
	v := int64(binary.BigEndian.Uint64(d.b))
	d.b = d.b[8:]
	return v
}
func (d *dec) buf() []byte {
	n := d.i32()
	if n < 0 {
		return nil
	}
	if len(d.b) < int(n) {
		d.err = io.ErrUnexpectedEOF
		d.b = nil
		return nil
	}
	v := d.b[:n]
	d.b = d.b[n:]
	return v
}
func (d *dec) str() string { return string(d.buf()) }

type enc struct{ b []byte }

func (e *enc) i32(v int32) { e.b = binary.BigEndian.AppendUint32(e.b, uint32(v)) }
func (e *enc) i64(v int64) { e.b = binary.BigEndian.AppendUint64(e.b, uint64(v)) }
func (e *enc) buf(v []byte) {
	if v == nil {
		e.i32(-1)
		return
	}
	e.i32(int32(len(v)))
	e.b = append(e.b, v...)
}
func (e *enc) str(s string) { e.i32(int32(len(s))); e.b = append(e.b, s...) }
func (e *enc) stat(n *znode) {
	e.i64(n.czxid)
	e.i64(n.mzxid)
	e.i64(0)
	e.i64(0)
	e.i32(n.version)
	e.i32(n.cversion)
	e.i32(0)
	e.i64(n.eph)
	e.i32(int32(len(n.data)))
	e.i32(int32(len(n.children)))
	e.i64(n.czxid)
}

func readFrame(c net.Conn) ([]byte, error) {
	h := make([]byte, 4)
	if _, err := io.ReadFull(c, h); err != nil {
		return nil, err
	}
	n := binary.BigEndian.Uint32(h)
	if n > 8<<20 {
		return nil, errors.New("frame too large")
	}
	b := make([]byte, n)
	_, err := io.ReadFull(c, b)
	return b, err
}

func writeFrame(c net.Conn, b []byte) error {
	h := make([]byte, 4, 4+len(b))
	binary.BigEndian.PutUint32(h, uint32(len(b)))
	_, err := c.Write(append(h, b...))
	return err
}

// Serve handles one client connection until it ends.
func (z *Server) Serve(c net.Conn, client string) {
	defer c.Close()
	fr, err := readFrame(c)
	if err != nil {
		return
	}
	d := &dec{b: fr}
	d.i32() // protocol version
	d.i64() // last zxid seen
	timeoutMs := d.i32()
	sid := d.i64()
	passwd := d.buf()
	if d.err != nil {
		return
	}
	// The session handshake costs a little (virtual) time, as on any network. Without it a
	// reconnect after an expiry produces eight session events in one instant, and the client
	// library's lossy event channel (capacity 6) may drop the final "has session" event. No
	// coordination call can be queued in the client during the handshake: the harness's DCS
	// decorator lets calls through only while a handshake-completed connection exists.
	if z.HandshakeLatency > 0 {
		time.Sleep(z.HandshakeLatency)
	}
	z.mu.Lock()
	if z.down || z.cut[client] {
		z.mu.Unlock()
		return
	}
	if z.mute[client] {
		z.mu.Unlock()
		// swallow everything until the peer gives up
		for {
			if _, err := readFrame(c); err != nil {
				return
			}
		}
	}
	if z.conns[client] == nil {
		z.conns[client] = map[net.Conn]bool{}
	}
	z.conns[client][c] = true
	var s *session
	if sid != 0 {
		s = z.sessions[sid]
		if s == nil || s.dead {
			// expired session: reply with session id 0
			e := &enc{}
			e.i32(0)
			e.i32(0)
			e.i64(0)
			e.buf(make([]byte, 16))
			delete(z.conns[client], c)
			z.mu.Unlock()
			_ = writeFrame(c, e.b)
			return
		}
		if s.conn != nil && s.conn != c {
			old := s.conn
			s.conn = nil
			defer old.Close()
		}
	} else {
		z.nextSess++
		if timeoutMs < 100 {
			timeoutMs = 100
		}
		s = &session{id: z.nextSess, client: client, timeout: time.Duration(timeoutMs) * time.Millisecond}
		z.sessions[s.id] = s
		z.appendLog(Rec{Client: client, Sess: s.id, Op: "session-open"})
		passwd = make([]byte, 16)
	}
	s.conn = c
	if s.timer != nil {
		s.timer.Stop()
	}
	s.timer = time.AfterFunc(s.timeout, func() {
		z.mu.Lock()
		z.expireLocked(s, "session-expire")
		z.mu.Unlock()
	})
	e := &enc{}
	e.i32(0)
	e.i32(int32(s.timeout / time.Millisecond))
	e.i64(s.id)
	e.buf(passwd)
	if z.live[client] == nil {
		z.live[client] = map[net.Conn]bool{}
	}
	z.live[client][c] = true
	z.mu.Unlock()
	defer func() {
		z.mu.Lock()
		delete(z.live[client], c)
		if z.conns[client] != nil {
			delete(z.conns[client], c)
		}
		z.mu.Unlock()
	}()
	if writeFrame(c, e.b) != nil {
		return
	}
	for {
		fr, err := readFrame(c)
		if err != nil {
			return
		}
		d := &dec{b: fr}
		xid := d.i32()
		op := d.i32()
		z.mu.Lock()
		if s.dead || z.down || z.cut[client] {
			z.mu.Unlock()
			return
		}
		if z.mute[client] {
			z.mu.Unlock()
			continue
		}
		s.timer.Reset(s.timeout)
		out := &enc{}
		body := &enc{}
		var ec int32
		req := Req{Client: client, Sess: s.id, Op: opName(op)}
		var ver, flags int32
		switch op {
		case opCreate:
			req.Path = d.str()
			req.Data = append([]byte{}, d.buf()...)
			nacl := d.i32()
			for i := int32(0); i < nacl && d.err == nil; i++ {
				d.i32()
				d.str()
				d.str()
			}
			flags = d.i32()
			req.Eph = flags&1 != 0
		case opDelete:
			req.Path = d.str()
			ver = d.i32()
		case opExists, opGetData, opGetChildren, opGetChildren2:
			req.Path = d.str()
		case opSetData:
			req.Path = d.str()
			req.Data = append([]byte{}, d.buf()...)
			ver = d.i32()
		}
		if d.err != nil {
			z.mu.Unlock()
			return
		}
		act := Pass
		if z.Before != nil && op != opPing {
			act = z.Before(req)
		}
		if act == DropBefore {
			z.mu.Unlock()
			return
		}
		if act == Fail {
			ec = ErrAPIError
		} else {
			switch op {
			case opPing, opSetAuth, opSetWatches:
			case opClose:
				z.expireLocked(s, "session-close")
			case opCreate:
				if flags&2 != 0 {
					ec = ErrUnimplemented // sequential nodes are not used by mysync
					break
				}
				ec = z.applyCreate(client, s.id, req.Path, req.Data, req.Eph)
				if ec == ErrOK {
					body.str(req.Path)
				}
			case opDelete:
				ec = z.applyDelete(client, s.id, req.Path, ver)
			case opExists:
				if n, _, _ := z.lookup(req.Path); n == nil {
					ec = ErrNoNode
				} else {
					body.stat(n)
				}
			case opGetData:
				if n, _, _ := z.lookup(req.Path); n == nil {
					ec = ErrNoNode
				} else {
					body.buf(n.data)
					body.stat(n)
				}
			case opSetData:
				ec = z.applySet(client, s.id, req.Path, req.Data, ver)
				if ec == ErrOK {
					n, _, _ := z.lookup(req.Path)
					body.stat(n)
				}
			case opGetChildren, opGetChildren2:
				if n, _, _ := z.lookup(req.Path); n == nil {
					ec = ErrNoNode
				} else {
					names := make([]string, 0, len(n.children))
					for k := range n.children {
						names = append(names, k)
					}
					sort.Strings(names)
					body.i32(int32(len(names)))
					for _, k := range names {
						body.str(k)
					}
					if op == opGetChildren2 {
						body.stat(n)
					}
				}
			default:
				ec = ErrUnimplemented
			}
		}
		if op == opPing {
			xid = -2
		}
		out.i32(xid)
		out.i64(z.zxid)
		out.i32(ec)
		if ec == 0 {
			out.b = append(out.b, body.b...)
		}
		after := z.After
		var delay time.Duration
		if z.Delay != nil && op != opPing {
			delay = z.Delay(req)
		}
		z.mu.Unlock()
		if act == DropAfter {
			return
		}
		if delay > 0 {
			time.Sleep(delay)
		}
		if writeFrame(c, out.b) != nil {
			return
		}
		if after != nil && op != opPing {
			after(req, ec)
		}
		if op == opClose {
			return
		}
	}
}
