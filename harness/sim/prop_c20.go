package sim

import (
	"fmt"
	"math/rand"
	"runtime"
	"time"

	"github.com/yandex/mysync/internal/config"
	"github.com/yandex/mysync/verif/world"
)

// C20 — daemon robustness: no crash (the child-process supervisor attributes every death of a
// child to the scenario it was running), no accumulation of goroutines / connections over long
// runs (counts sampled on the virtual clock + the bubble's tear-down listing every goroutine
// still alive), no data race (a share of the units runs in the -race binary).

type c20Spec struct {
	Family   string `json:"family"` // dangling soak switch-wreck first-use
	N        int    `json:"n_ha"`
	Casc     bool   `json:"cascade"`
	MgrSw    bool   `json:"manager_switchover"`
	W        int    `json:"wait_count"`
	Mutation string `json:"mutation,omitempty"`
	State    string `json:"daemon_state,omitempty"`
	Steps    int    `json:"steps,omitempty"`
}

var c20Mutations = []string{
	"unregister_master", "unregister_replica", "unregister_local_of_manager", "stream_from_unregistered", "stream_from_self", "stream_from_cycle",
	"register_unknown_ha_host", "register_unknown_cascade_host", "master_key_unregistered", "master_key_empty", "master_key_garbage",
	"active_nodes_null", "active_nodes_empty", "active_nodes_garbage", "active_nodes_unknown_host", "delete_all_health", "health_garbage",
	"switch_unknown_hosts", "switch_garbage", "switch_to_cascade", "maintenance_garbage", "recovery_unknown_host", "recovery_of_master",
	"ha_nodes_deleted", "last_switch_garbage", "optimization_unknown_host", "ha_node_config_garbage", "cascade_config_garbage", "move_master_to_cascade",
	"recovery_mark_master_with_stuck_commits", "resetup_status_garbage",
	"daemons_restarted_in_maintenance_during_outage", "daemons_restarted_in_maintenance_during_outage_then_switch",
	"daemons_started_during_outage_then_second_outage",
}

var c20States = []string{"steady", "master_down", "replica_down", "zk_lost_on_manager", "zk_outage", "maintenance", "sql_errors", "sql_hangs"}

func c20Gen(seed int64, idx int, tier string, jobSeed int64) c20Spec {
	r := rand.New(rand.NewSource(seed))
	sp := c20Spec{N: 2 + r.Intn(3), Casc: r.Intn(2) == 0, MgrSw: r.Intn(2) == 0, W: 1 + r.Intn(2)}
	// quick: one round in which the states rotate over the mutations (the rotation depends on the run's seed: seeds 1-8
	// together cover every mutation in every state) and one round in the steady state; thorough: every mutation in every
	// one of the eight states, then the steady round
	rounds := tierN(tier, 2, 9)
	nd := len(c20Mutations) * rounds
	switch {
	case idx < nd:
		// first round: the states rotate over the mutations (the rotation depends on the run's seed, every state occurs)
		sp.Family, sp.Mutation, sp.State = "dangling", c20Mutations[idx%len(c20Mutations)], c20States[(idx%len(c20Mutations)+idx/len(c20Mutations)+int(jobSeed%8+8))%len(c20States)]
		if idx/len(c20Mutations) == rounds-1 {
			sp.State = "steady" // every mutation is seen at least once by a manager that runs complete iterations
		}
		if sp.Mutation == "stream_from_unregistered" || sp.Mutation == "stream_from_self" || sp.Mutation == "stream_from_cycle" || sp.Mutation == "switch_to_cascade" || sp.Mutation == "cascade_config_garbage" {
			sp.Casc = true
		}
	case idx < nd+tierN(tier, 16, 200):
		sp.Family, sp.Steps = "soak", tierN(tier, 40, 80)
		sp.N, sp.Casc = 4, true
	case idx < nd+tierN(tier, 16, 200)+tierN(tier, 24, 400):
		sp.Family = "switch-wreck"
	case idx < nd+tierN(tier, 16, 200)+tierN(tier, 24, 400)+tierN(tier, 24, 200):
		sp.Family = "first-use"
	default:
		sp.Family = "loops"
		sp.Mutation = c20Loops[idx%len(c20Loops)]
		if sp.N < 3 {
			sp.N = 3
		}
	}
	return sp
}

// c20Loops: situations in which every loop of ONE process is in a non-trivial branch at the same time (the process
// holds the manager lock while its own host is marked for recovery); they run under the race detector.
var c20Loops = []string{"manager_on_marked_master", "manager_on_marked_replica_remarked", "manager_host_failed_over_and_back", "manager_on_marked_master_stuck", "manager_on_marked_master_registration_churn", "transient_master_glitch_under_manager_switchover"}

func c20Units(tier string) int {
	return len(c20Mutations)*tierN(tier, 2, 9) + tierN(tier, 16, 200) + tierN(tier, 24, 400) + tierN(tier, 24, 200) + tierN(tier, 24, 160)
}

// c20RaceUnits lists the units that run in the -race binary.
func c20RaceUnits(tier string) []int {
	var out []int
	n := c20Units(tier)
	first := n - tierN(tier, 24, 200) - tierN(tier, 24, 160)
	for i := first; i < n; i++ {
		out = append(out, i) // first-use and loops scenarios
	}
	for i := 0; i < first; i += tierN(tier, 6, 9) {
		out = append(out, i) // a share of everything else
	}
	return out
}

type growth struct {
	gor, conns []int
}

func (g *growth) sample(s *Sim) {
	g.gor = append(g.gor, runtime.NumGoroutine())
	c := 0
	for _, n := range s.W.OpenConns() {
		c += n
	}
	g.conns = append(g.conns, c)
}

func mean(a []int) float64 {
	if len(a) == 0 {
		return 0
	}
	t := 0
	for _, x := range a {
		t += x
	}
	return float64(t) / float64(len(a))
}

func (g *growth) judge(sc *Scen, what string) {
	n := len(g.gor)
	if n < 9 {
		return
	}
	f, l := mean(g.gor[:n/3]), mean(g.gor[n-n/3:])
	fc, lc := mean(g.conns[:n/3]), mean(g.conns[n-n/3:])
	sc.Obs("%s: goroutines first third %.0f, last third %.0f; open MySQL connections %.0f -> %.0f over %d samples", what, f, l, fc, lc, n)
	if l > f+25 && g.gor[n-1] > g.gor[n/2] {
		sc.Violate("C20", "accumulation:goroutines", fmt.Sprintf("%s: the goroutine count grew from %.0f (first third) to %.0f (last third) and is still growing (%v)", what, f, l, g.gor))
	}
	if lc > fc+25 && g.conns[n-1] > g.conns[n/2] {
		sc.Violate("C20", "accumulation:connections", fmt.Sprintf("%s: open MySQL connections grew from %.0f to %.0f (%v)", what, fc, lc, g.conns))
	}
}

func c20Run(u *Unit) {
	sp := c20Gen(u.Seed, u.Idx, u.Job.Tier, u.Job.Seed)
	switch sp.Family {
	case "switch-wreck":
		// half-done switchovers and failovers with dying managers and failing statements: the C06/C07
		// generators produce them; their own monitors ride along, C20 looks at crashes and leaks
		switch u.Idx % 3 {
		case 0:
			c06Run(u)
		case 1:
			c07Run(u)
		default:
			c09Run(u) // daemon restarts during maintenance and coordination outages
		}
		return
	}
	hosts := append([]string(nil), haNames[:sp.N]...)
	var casc map[string]string
	if sp.Casc {
		casc = map[string]string{"cas-db9": hosts[len(hosts)-1]}
		if sp.Mutation == "stream_from_cycle" {
			casc["cas-db8"] = "cas-db9"
		}
	}
	opts := Opts{HA: hosts, Cascade: casc, Seed: u.Seed, Workload: true, PreConverged: sp.Family != "first-use",
		Cfg: func(h string, c *config.Config) {
			c.ManagerSwitchover = sp.MgrSw
			c.RplSemiSyncMasterWaitForSlaveCount = sp.W
			c.FailoverDelay = 5 * time.Second
			c.InactivationDelay = 10 * time.Second
			c.ResetupCrashedHosts = u.Idx%3 == 0
			c.ReplicationRepairAggressiveMode = u.Idx%2 == 0
			c.ExcludeUsers = []string{"admin", "monitor"}
			c.ReplMon = u.Idx%4 == 1 // the repl_mon writer loop runs beside the others in a quarter of the scenarios
		}, ResetupTool: sp.Family == "soak"}
	if sp.Family == "loops" {
		inner := opts.Cfg
		opts.Cfg = func(h string, c *config.Config) {
			inner(h, c)
			// many coinciding ticks of the loops
			c.TickInterval, c.RecoveryCheckInterval, c.HealthCheckInterval = time.Second, time.Second, time.Second
		}
		opts.FirstDaemon = hosts[0]
		if sp.Mutation == "manager_on_marked_replica_remarked" || sp.Mutation == "transient_master_glitch_under_manager_switchover" {
			opts.FirstDaemon = hosts[1]
		}
		if sp.Mutation == "transient_master_glitch_under_manager_switchover" {
			sp.MgrSw = true
		}
	}
	name := fmt.Sprintf("c20-%d-%s-%s-%s", u.Idx, sp.Family, sp.Mutation, sp.State)
	u.Scenario(name, sp, opts, func(sc *Scen) {
		s := sc.S
		g := &growth{}
		// replies with a seeded jitter: the loops of one process meet in varying pairings
		s.W.Lock()
		s.W.Jitter = 2 + u.Idx%4
		s.W.Unlock()
		switch sp.Family {
		case "first-use":
			// servers become reachable just before coinciding ticks of the loops, version query delayed:
			// the lazy per-node caches are filled from several goroutines at once
			s.W.Lock()
			for _, h := range s.AllHosts() {
				s.W.Servers[h].Up = false
			}
			s.W.Fault = func(c *world.StmtCtx) world.FaultAction {
				if c.Class == "version" || c.Class == "uuid" {
					return world.FaultAction{Kind: "delay", Delay: 300 * time.Millisecond}
				}
				return world.FaultAction{}
			}
			s.W.Unlock()
			s.Start()
			time.Sleep(time.Duration(24500+s.Rng.Intn(600)) * time.Millisecond)
			s.W.Lock()
			for _, h := range s.AllHosts() {
				s.W.Servers[h].Up = true
			}
			s.W.Unlock()
			time.Sleep(40 * time.Second)
			sc.Cover("first-use")
			sc.Coverf("first-use|n=%d|casc=%v|mgrsw=%v", sp.N, sp.Casc, sp.MgrSw)
		case "soak":
			s.Start()
			time.Sleep(40 * time.Second)
			all := s.AllHosts()
			for step := 0; step < sp.Steps; step++ {
				h := all[s.Rng.Intn(len(all))]
				switch s.Rng.Intn(7) {
				case 0:
					s.W.Crash(h)
					time.Sleep(time.Duration(5+s.Rng.Intn(90)) * time.Second)
					s.W.Restart(h)
				case 1:
					s.CutZK(h, true)
					time.Sleep(time.Duration(1+s.Rng.Intn(60)) * time.Second)
					s.CutZK(h, false)
				case 2:
					fileSwitch(sc, "", hosts[s.Rng.Intn(len(hosts))], "manual", "switchover", "operator")
				case 3:
					s.W.Isolate(h, true)
					time.Sleep(time.Duration(5+s.Rng.Intn(60)) * time.Second)
					s.W.Isolate(h, false)
				case 4:
					in := s.Kill(h)
					time.Sleep(time.Duration(1+s.Rng.Intn(30)) * time.Second)
					if in != nil {
						<-in.Done()
						s.StartInst(h, 0)
					}
				case 5:
					s.ZKOutage(true)
					time.Sleep(time.Duration(1+s.Rng.Intn(40)) * time.Second)
					s.ZKOutage(false)
				}
				time.Sleep(time.Duration(10+s.Rng.Intn(40)) * time.Second)
				g.sample(s)
			}
			time.Sleep(3 * time.Minute)
			g.sample(s)
			g.judge(sc, "random fault soak")
			sc.Cover("soak")
			sc.Coverf("soak|mgrsw=%v|w=%d|seed=%d", sp.MgrSw, sp.W, u.Idx)
		case "loops":
			s.Start()
			time.Sleep(22 * time.Second)
			mgr := ""
			if in := s.InstByName(lockHolder(s)); in != nil {
				mgr = in.Host
			}
			if mgr != opts.FirstDaemon {
				sc.Inconclusive("the intended daemon did not get the manager lock: " + mgr)
				return
			}
			master := hosts[0]
			put := func(p, v string) { s.ZK.Put("operator", NS+"/"+p, v) }
			switch sp.Mutation {
			case "manager_on_marked_master":
				put("recovery/"+master, `null`)
				time.Sleep(150 * time.Second)
			case "manager_on_marked_master_stuck":
				put("recovery/"+master, `null`)
				for _, h := range hosts[1:] {
					s.W.Manual(h, "stop io thread", func(x *world.Server) { x.IORun = false })
				}
				time.Sleep(150 * time.Second)
			case "transient_master_glitch_under_manager_switchover":
				// manager_switchover is on and the manager (on a replica's host) cannot reach the master for a few seconds
				// while the master's own record stays good: its "is the master visible" probes fail. Afterwards it must be
				// able to talk to the master again - a daemon that has wrecked its own handle sends it nothing any more
				for round := 0; round < 3; round++ {
					s.W.Cut(mgr, master, true)
					time.Sleep(time.Duration(7+3*round) * time.Second)
					s.W.Cut(mgr, master, false)
					t0 := s.W.Now()
					time.Sleep(30 * time.Second)
					n := 0
					for _, e := range s.W.Events() {
						if e.Kind == "sql" && e.Phase == "ret" && e.Who == "mysync_"+mgr && e.Host == master && e.T > t0 && e.Err == 0 && e.Class != "dial" {
							n++
						}
					}
					if in := s.InstByName(lockHolder(s)); in != nil && in.Host == mgr && n == 0 {
						sc.Violate("C20", "own-state-corrupted:no-statement-reaches-a-healthy-host", fmt.Sprintf("after %s could not reach the master %s for a few seconds (round %d) it has not got a single statement through to it in the 30 s since the path healed, although it still manages and the master is up and reachable", mgr, master, round+1), s.W.Describe())
						break
					}
				}
			case "manager_on_marked_master_registration_churn":
				// hosts are registered and removed at any moment while the main loop, the recovery checker and the lag
				// checker of one process all refresh their host list
				put("recovery/"+master, `null`)
				for i := 0; i < 90; i++ {
					h := fmt.Sprintf("ghost-db%d", i%3)
					if i%2 == 0 {
						put("ha_nodes/"+h, `{"priority":0}`)
					} else {
						put("cascade_nodes/"+h, fmt.Sprintf(`{"stream_from":%q}`, hosts[1]))
					}
					time.Sleep(time.Duration(700+s.Rng.Intn(900)) * time.Millisecond)
					if i%2 == 0 {
						s.ZK.Remove("operator", NS+"/ha_nodes/"+h)
					} else {
						s.ZK.Remove("operator", NS+"/cascade_nodes/"+h)
					}
					time.Sleep(time.Duration(300+s.Rng.Intn(700)) * time.Millisecond)
				}
			case "manager_on_marked_replica_remarked":
				// the mark is cleared by the host itself as soon as it finds itself clean; the operator keeps re-marking
				for i := 0; i < 20; i++ {
					put("recovery/"+hosts[1], `null`)
					time.Sleep(time.Duration(6000+s.Rng.Intn(3000)) * time.Millisecond)
				}
			case "manager_host_failed_over_and_back":
				// mysqld of the manager's host (the master) dies, the manager fails over and marks its own host,
				// mysqld comes back as a stale master and is repaired and recovered while the same process manages
				s.W.Crash(master)
				time.Sleep(40 * time.Second)
				s.W.Restart(master)
				time.Sleep(110 * time.Second)
			}
			for i := 0; i < 9; i++ {
				time.Sleep(5 * time.Second)
				g.sample(s)
			}
			sc.Cover("loops:" + sp.Mutation)
			sc.Coverf("loops|%s|n=%d|casc=%v|mgrsw=%v", sp.Mutation, sp.N, sp.Casc, sp.MgrSw)
		case "dangling":
			s.Start()
			time.Sleep(22 * time.Second)
			c20State(sc, sp, hosts)
			c20Mutate(sc, sp, hosts)
			// >= 300 iterations in the resulting state (tick 5 s)
			for i := 0; i < 30; i++ {
				time.Sleep(50 * time.Second)
				g.sample(s)
			}
			g.judge(sc, "300 iterations after "+sp.Mutation+" in state "+sp.State)
			sc.Cover("mutation:" + sp.Mutation)
			sc.Cover("state:" + sp.State)
			sc.Coverf("dangling|%s|%s|n=%d|casc=%v|mgrsw=%v", sp.Mutation, sp.State, sp.N, sp.Casc, sp.MgrSw)
		}
		sc.Obs("family=%s mutation=%s state=%s: survived %.0f virtual seconds, master %q, active %v", sp.Family, sp.Mutation, sp.State, s.W.Now().Seconds(), s.Master(), s.ActiveNodes())
	})
}

func c20State(sc *Scen, sp c20Spec, hosts []string) {
	s := sc.S
	switch sp.State {
	case "master_down":
		s.W.Crash(hosts[0])
	case "replica_down":
		s.W.Crash(hosts[1])
	case "zk_lost_on_manager":
		if in := s.InstByName(lockHolder(s)); in != nil {
			s.CutZK(in.Host, true)
		}
	case "zk_outage":
		go func() {
			time.Sleep(20 * time.Second)
			s.ZKOutage(true)
			time.Sleep(60 * time.Second)
			s.ZKOutage(false)
		}()
	case "maintenance":
		s.ZK.Put("operator", NS+"/maintenance", fmt.Sprintf(`{"initiated_by":"op","initiated_at":%q,"mysync_paused":false,"should_leave":false,"mode":"full"}`, time.Now().Format(time.RFC3339Nano)))
		go func() {
			time.Sleep(100 * time.Second)
			s.ZK.Put("operator", NS+"/maintenance", fmt.Sprintf(`{"initiated_by":"op","initiated_at":%q,"mysync_paused":true,"should_leave":true,"mode":"full"}`, time.Now().Format(time.RFC3339Nano)))
		}()
	case "sql_errors":
		s.W.Lock()
		s.W.Fault = func(c *world.StmtCtx) world.FaultAction {
			if s.Rng.Intn(7) == 0 {
				return world.FaultAction{Kind: "fail", Errno: []int{1105, 1045, 1040, 2013, 1205}[s.Rng.Intn(5)]}
			}
			return world.FaultAction{}
		}
		s.W.Unlock()
	case "sql_hangs":
		s.W.Lock()
		s.W.Fault = func(c *world.StmtCtx) world.FaultAction {
			if s.Rng.Intn(40) == 0 {
				return world.FaultAction{Kind: "hang"}
			}
			return world.FaultAction{}
		}
		s.W.Unlock()
	}
}

func c20Mutate(sc *Scen, sp c20Spec, hosts []string) {
	s := sc.S
	z := s.ZK
	master := hosts[0]
	put := func(p, v string) { z.Put("operator", NS+"/"+p, v) }
	switch sp.Mutation {
	case "unregister_master":
		z.Remove("operator", NS+"/ha_nodes/"+master)
	case "unregister_replica":
		z.Remove("operator", NS+"/ha_nodes/"+hosts[1])
	case "unregister_local_of_manager":
		if in := s.InstByName(lockHolder(s)); in != nil {
			z.Remove("operator", NS+"/ha_nodes/"+in.Host)
		}
	case "stream_from_unregistered":
		put("cascade_nodes/cas-db9", `{"stream_from":"ghost-db0"}`)
	case "stream_from_self":
		put("cascade_nodes/cas-db9", `{"stream_from":"cas-db9"}`)
	case "stream_from_cycle":
		put("cascade_nodes/cas-db9", `{"stream_from":"cas-db8"}`)
	case "register_unknown_ha_host":
		put("ha_nodes/ghost-db0", `{"priority":3}`)
	case "register_unknown_cascade_host":
		put("cascade_nodes/ghost-db0", fmt.Sprintf(`{"stream_from":%q}`, master))
	case "master_key_unregistered":
		put("master", `"ghost-db0"`)
	case "master_key_empty":
		put("master", `""`)
	case "master_key_garbage":
		put("master", `{not json`)
	case "active_nodes_null":
		put("active_nodes", `null`)
	case "active_nodes_empty":
		put("active_nodes", `[]`)
	case "active_nodes_garbage":
		put("active_nodes", `"oops"`)
	case "active_nodes_unknown_host":
		put("active_nodes", fmt.Sprintf(`["ghost-db0",%q]`, master))
	case "delete_all_health":
		for _, h := range z.Children(NS + "/health") {
			z.Remove("operator", NS+"/health/"+h)
		}
	case "health_garbage":
		// a plain (non-ephemeral) key in place of the master's health record
		s.Kill(master)
		time.Sleep(5 * time.Second)
		put("health/"+master, `{"ping_ok":"maybe"}`)
	case "switch_unknown_hosts":
		put("switch", fmt.Sprintf(`{"from":"","to":"ghost-db0","cause":"worker","initiated_by":"w","initiated_at":%q,"master_transition":"switchover"}`, time.Now().Format(time.RFC3339Nano)))
	case "switch_garbage":
		put("switch", `[1,2,3]`)
	case "switch_to_cascade":
		put("switch", fmt.Sprintf(`{"from":"","to":"cas-db9","cause":"manual","initiated_by":"w","initiated_at":%q,"master_transition":"switchover"}`, time.Now().Format(time.RFC3339Nano)))
	case "maintenance_garbage":
		put("maintenance", `"yes please"`)
	case "recovery_unknown_host":
		put("recovery/ghost-db0", `null`)
	case "recovery_of_master":
		put("recovery/"+master, `null`)
	case "ha_nodes_deleted":
		z.Remove("operator", NS+"/ha_nodes")
	case "last_switch_garbage":
		put("last_switch", `{"result":"fine"}`)
		s.W.Crash(master)
	case "optimization_unknown_host":
		put("optimization_nodes/ghost-db0", `{"status":"enabled"}`)
	case "ha_node_config_garbage":
		put("ha_nodes/"+hosts[1], `priority: high`)
		fileSwitch(sc, master, "", "manual", "switchover", "operator")
	case "cascade_config_garbage":
		put("cascade_nodes/cas-db9", `stream from whom?`)
	case "move_master_to_cascade":
		z.Remove("operator", NS+"/ha_nodes/"+master)
		put("cascade_nodes/"+master, fmt.Sprintf(`{"stream_from":%q}`, hosts[1]))
	case "recovery_mark_master_with_stuck_commits":
		// the recorded master is marked for recovery and its commits hang on semi-sync
		put("recovery/"+master, `null`)
		for _, h := range hosts[1:] {
			s.W.Manual(h, "stop io thread", func(x *world.Server) { x.IORun = false })
		}
	case "daemons_restarted_in_maintenance_during_outage", "daemons_restarted_in_maintenance_during_outage_then_switch":
		// every daemon restarts while the coordination service is away and the maintenance marker file exists,
		// then maintenance is left
		put("maintenance", fmt.Sprintf(`{"initiated_by":"op","initiated_at":%q,"mysync_paused":false,"should_leave":false,"mode":"full"}`, time.Now().Format(time.RFC3339Nano)))
		time.Sleep(20 * time.Second)
		s.ZKOutage(true)
		var ins []*Inst
		for _, h := range s.AllHosts() {
			ins = append(ins, s.Kill(h))
		}
		for i, in := range ins {
			<-in.Done()
			s.StartInst(s.AllHosts()[i], time.Duration(i)*200*time.Millisecond)
		}
		time.Sleep(25 * time.Second)
		s.ZKOutage(false)
		time.Sleep(10 * time.Second)
		put("maintenance", fmt.Sprintf(`{"initiated_by":"op","initiated_at":%q,"mysync_paused":true,"should_leave":true,"mode":"full"}`, time.Now().Format(time.RFC3339Nano)))
		if sp.Mutation == "daemons_restarted_in_maintenance_during_outage_then_switch" {
			fileSwitch(sc, "", hosts[1], "manual", "switchover", "operator")
		}
	case "daemons_started_during_outage_then_second_outage":
		// every daemon starts while the coordination service is away (its first tick waits for a session), works for a
		// while, loses the service for longer than the session timeout, and gets it back
		s.ZKOutage(true)
		var ins []*Inst
		for _, h := range s.AllHosts() {
			ins = append(ins, s.Kill(h))
		}
		for i, in := range ins {
			<-in.Done()
			s.StartInst(s.AllHosts()[i], time.Duration(i)*200*time.Millisecond)
		}
		time.Sleep(18 * time.Second)
		s.ZKOutage(false)
		time.Sleep(25 * time.Second)
		for k := 0; k < 3; k++ {
			s.ZKOutage(true)
			time.Sleep(time.Duration(8+4*k) * time.Second)
			s.ZKOutage(false)
			time.Sleep(20 * time.Second)
		}
	case "resetup_status_garbage":
		put("resetup_status/"+hosts[1], `"never"`)
		s.W.Manual(hosts[1], "offline", func(x *world.Server) { x.Offline = true })
	}
}

func init() {
	register(&Prop{ID: "C20", Units: c20Units, Run: c20Run, RaceUnits: c20RaceUnits,
		Floor: func(string) []string {
			f := []string{"soak", "first-use"}
			for _, l := range c20Loops {
				f = append(f, "loops:"+l)
			}
			for _, m := range c20Mutations {
				f = append(f, "mutation:"+m)
			}
			for _, st := range c20States {
				f = append(f, "state:"+st)
			}
			return f
		},
		Rule: "families: (dangling) every coordination-tree mutation or history of a list of 34 (unregistered master / replica / stream_from, unknown hosts, malformed or empty values of every key mysync reads) applied to a running cluster in one of 8 daemon/server states, then 300 iterations; (soak) random crashes, isolations, coordination cuts and outages, daemon kills and switch requests for 40-80 steps; (switch-wreck) the C06/C07/C09 generators' half-done switchovers with dying managers and failing statements and daemon restarts during maintenance and coordination outages; (first-use) servers becoming reachable just before coinciding ticks with delayed version/uuid queries; (loops) one process holds the manager lock while its own host is marked for recovery (as master, as replica with repeated marks, after failing over its own host, with stuck commits), so that all of its loops are in their non-trivial branches at once; a share of all units and all first-use and loops units run under the race detector; oracles: child death with a mysync frame = crash, goroutine/connection counts over the run + goroutines alive at bubble tear-down = leak, race reports de-duplicated by outermost mysync functions; distinct by (family, mutation, state, shape)"})
}
