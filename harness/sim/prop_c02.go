package sim

import (
	"encoding/json"
	"fmt"
	"math/rand"
	"strings"
	"sync"
	"time"

	"github.com/yandex/mysync/internal/config"
	"github.com/yandex/mysync/verif/world"
)

// C02 — single-fault tolerance: converge, inject one fault, heal, quiesce; judge the final state,
// acknowledged loss and dual acknowledgement on ground truth.

type c02Spec struct {
	N         int     `json:"n_ha"`
	Cascade   bool    `json:"cascade"`
	W         int     `json:"wait_count"`
	Failover  bool    `json:"failover"`
	MFirst    bool    `json:"master_first_order"`
	Fault     string  `json:"fault"`
	Target    string  `json:"target"`
	OffsetMs  int     `json:"offset_ms"`
	DurationS float64 `json:"duration_s"`
	SlowApply bool    `json:"replicas_apply_slower_than_the_master_writes"`
}

var c02Faults = []string{
	"master_crash", "master_isolate_all", "master_zk_loss", "master_isolate_peers", "master_isolate_keep_clients", "master_isolation_heals_as_failover_starts",
	"replica_crash", "replica_isolate_all",
	"mysync_kill_master_host", "mysync_kill_manager_host", "mysync_kill_replica_host",
	"zk_loss_replica", "zk_outage_all",
	"switch_to", "switch_from", "manual_failover",
}

var haNames = []string{"vla-db1", "sas-db2", "myt-db3", "iva-db4", "man-db5"}

func c02Gen(seed int64, idx int) c02Spec {
	r := rand.New(rand.NewSource(seed))
	sp := c02Spec{}
	sp.Fault = c02Faults[idx%len(c02Faults)]
	sp.N = 2 + r.Intn(3)
	sp.Cascade = r.Intn(3) == 0
	sp.W = 1 + r.Intn(2)
	sp.Failover = r.Intn(4) != 0
	sp.MFirst = r.Intn(2) == 0
	sp.OffsetMs = r.Intn(5000) // across the tick / health-check cycle
	sp.DurationS = []float64{2, 8, 20, 45, 120}[r.Intn(5)]
	sp.SlowApply = r.Intn(3) == 0 || sp.Fault == "master_isolation_heals_as_failover_starts"
	return sp
}

const c02Bound = 15 * time.Minute

// fileSwitch writes a switch request the way the CLI does (create-if-absent).
func fileSwitch(sc *Scen, from, to, cause, transition, by string) bool {
	v := map[string]any{"from": from, "to": to, "cause": cause, "initiated_by": by, "initiated_at": time.Now().Format(time.RFC3339Nano), "master_transition": transition}
	b, _ := json.Marshal(v)
	return sc.S.ZK.CreateIfAbsent("operator", NS+"/switch", string(b))
}

// waitConverged waits until the cluster is canonical, the active list has all HA hosts that are up and
// semi-sync matches; returns false on timeout.
func waitConverged(sc *Scen, max time.Duration) bool {
	return sc.S.WaitUntil(max, time.Second, func() bool {
		if !sc.S.CheckCanonical(nil).OK {
			return false
		}
		return len(sc.S.ActiveNodes()) == len(sc.S.O.HA)
	})
}

func c02Run(u *Unit) {
	sp := c02Gen(u.Seed, u.Idx)
	hosts := append([]string(nil), haNames[:sp.N]...)
	var casc map[string]string
	if sp.Cascade {
		casc = map[string]string{"cas-db9": hosts[1]}
	}
	opts := Opts{HA: hosts, Cascade: casc, Seed: u.Seed, Workload: true, ResetupTool: true,
		Cfg: func(h string, c *config.Config) {
			c.Failover = sp.Failover
			c.RplSemiSyncMasterWaitForSlaveCount = sp.W
			c.MasterFirstAdjustSSOrder = sp.MFirst
		}}
	name := fmt.Sprintf("c02-%d-%s", u.Idx, sp.Fault)
	u.Scenario(name, sp, opts, func(sc *Scen) {
		s := sc.S
		newDualAck(sc, "C02")
		s.Start()
		if !waitConverged(sc, 3*time.Minute) {
			sc.Inconclusive("cluster did not converge before the fault: " + s.CheckCanonical(nil).Why)
			return
		}
		if sp.SlowApply {
			// every replica applies half as fast as the clients write: acknowledged transactions sit in relay logs,
			// received but not applied, when the fault comes
			for _, h := range s.AllHosts() {
				s.W.Manual(h, "slow applier", func(x *world.Server) { x.ApplyRate = 1 })
			}
			time.Sleep(60 * time.Second) // a backlog that outlasts the failover delay
			sc.Cover("apply-lag-at-fault")
		}
		time.Sleep(time.Duration(sp.OffsetMs) * time.Millisecond)
		master := s.Master()
		var replica, managerHost string
		for _, h := range hosts {
			if h != master {
				replica = h
				break
			}
		}
		if mgr, ok := s.ZK.Get(NS + "/manager"); ok {
			var lo struct{ Hostname string }
			_ = json.Unmarshal([]byte(mgr), &lo)
			if in := s.InstByName(lo.Hostname); in != nil {
				managerHost = in.Host
			}
		}
		tFault := s.W.Now().Seconds()
		before := ackedBetween(sc, 0, tFault)
		dur := time.Duration(sp.DurationS * float64(time.Second))
		var heal func()
		target := ""
		switch sp.Fault {
		case "master_crash":
			target = master
			s.W.Crash(master)
			heal = func() { s.W.Restart(master) }
		case "master_isolate_all":
			target = master
			s.W.Isolate(master, true)
			s.CutZK(master, true)
			heal = func() { s.W.Isolate(master, false); s.CutZK(master, false) }
		case "master_zk_loss":
			target = master
			s.CutZK(master, true)
			heal = func() { s.CutZK(master, false) }
		case "master_isolate_keep_clients":
			// cut off from its peers and from the coordination service while clients keep writing to it: their commits
			// pile up waiting for an acknowledgement
			target = master
			s.W.Isolate(master, true)
			s.W.Cut("client", master, false)
			s.CutZK(master, true)
			heal = func() { s.W.Isolate(master, false); s.CutZK(master, false) }
		case "master_isolation_heals_as_failover_starts":
			// like the previous one, but the isolation ends at the very moment a manager begins to execute the failover:
			// what it observed at the start of its iteration (master unreachable) is stale while it acts
			target = master
			s.W.Isolate(master, true)
			s.W.Cut("client", master, false)
			s.CutZK(master, true)
			// every statement a daemon sends to another host takes 100 ms: the procedure lasts seconds, as it does on a
			// real network, and replication moves meanwhile
			s.W.Lock()
			s.W.Fault = func(c *world.StmtCtx) world.FaultAction {
				if strings.HasPrefix(c.Caller, "mysync_") && c.Caller != "mysync_"+c.Host && c.Class != "conn_init" {
					return world.FaultAction{Kind: "delay", Delay: 100 * time.Millisecond}
				}
				return world.FaultAction{}
			}
			s.W.Unlock()
			var once sync.Once
			s.OnDCS(func(inst, method, path, arg, res string) {
				if method == "Set" && path == "switch" && strings.Contains(arg, `"started_by":"`) && !strings.Contains(arg, `"started_by":""`) {
					once.Do(func() {
						s.W.Isolate(master, false)
						s.CutZK(master, false)
						sc.Cover("healed-as-failover-started")
					})
				}
			})
			heal = func() { s.W.Isolate(master, false); s.CutZK(master, false) }
			if dur < 60*time.Second {
				dur = 60 * time.Second
			}
		case "master_isolate_peers":
			target = master
			s.W.Isolate(master, true)
			s.W.Cut("client", master, false)
			heal = func() { s.W.Isolate(master, false) }
		case "replica_crash":
			target = replica
			s.W.Crash(replica)
			heal = func() { s.W.Restart(replica) }
		case "replica_isolate_all":
			target = replica
			s.W.Isolate(replica, true)
			s.CutZK(replica, true)
			heal = func() { s.W.Isolate(replica, false); s.CutZK(replica, false) }
		case "mysync_kill_master_host", "mysync_kill_manager_host", "mysync_kill_replica_host":
			target = map[string]string{"mysync_kill_master_host": master, "mysync_kill_manager_host": managerHost, "mysync_kill_replica_host": replica}[sp.Fault]
			if target == "" {
				target = master
			}
			in := s.Kill(target)
			heal = func() {
				<-in.Done() // a zombie cannot touch the host's marker files any more
				s.StartInst(target, 0)
			}
		case "zk_loss_replica":
			target = replica
			s.CutZK(replica, true)
			heal = func() { s.CutZK(replica, false) }
		case "zk_outage_all":
			target = "*"
			s.ZKOutage(true)
			heal = func() { s.ZKOutage(false) }
		case "switch_to":
			target = replica
			fileSwitch(sc, "", replica, "manual", "switchover", "operator")
			heal = func() {}
		case "switch_from":
			target = master
			fileSwitch(sc, master, "", "manual", "switchover", "operator")
			heal = func() {}
		case "manual_failover":
			target = master
			fileSwitch(sc, master, "", "manual", "failover", "operator")
			heal = func() {}
		}
		sp.Target = target
		time.Sleep(dur)
		heal()
		if sp.SlowApply {
			for _, h := range s.AllHosts() {
				s.W.Manual(h, "applier back to normal", func(x *world.Server) { x.ApplyRate = 0 })
			}
		}
		tHeal := s.W.Now().Seconds()
		during := ackedBetween(sc, tFault, tHeal)
		// "exactly one writable master": once everything is reachable again and a manager exists, a second server that
		// accepts writes (not read-only, not offline, not the recorded master) is fenced within a minute - long before
		// anything as slow as a resetup could repair it
		stopWatch := make(chan struct{})
		defer close(stopWatch)
		go func() {
			since := map[string]time.Duration{}
			for {
				select {
				case <-stopWatch:
					return
				case <-time.After(time.Second):
				}
				rec, mgr := s.Master(), lockHolder(s)
				now := s.W.Now()
				for h, x := range s.W.Snapshot() {
					if mgr == "" || rec == "" || h == rec || !x.Up || x.ReadOnly || x.Offline || !contains(hosts, h) {
						delete(since, h)
						continue
					}
					t0, ok := since[h]
					if !ok {
						since[h] = now
						continue
					}
					if now-t0 > 60*time.Second {
						sc.Violate("C02", "second-writable-server-not-fenced:"+sp.Fault, fmt.Sprintf("%s has been accepting writes (not read-only, not offline) beside the recorded master %s since %.0fs - for more than a minute with every host reachable and %s managing", h, rec, t0.Seconds(), mgr), s.W.Describe())
						delete(since, h)
						return
					}
				}
			}
		}()
		// quiesce: canonical, full list, and still canonical 30 s later
		ok := false
		deadline := time.Now().Add(c02Bound)
		for time.Now().Before(deadline) {
			if waitConverged(sc, time.Until(deadline)) {
				time.Sleep(30 * time.Second)
				if s.CheckCanonical(nil).OK && len(s.ActiveNodes()) == len(hosts) {
					ok = true
					break
				}
			}
		}
		tEnd := s.W.Now().Seconds()
		can := s.CheckCanonical(nil)
		if !ok {
			sc.Violate("C02", "no-convergence:"+can.Code, fmt.Sprintf("cluster not back to the canonical state %.0f virtual minutes after healing (%s): %s; active=%v",
				c02Bound.Minutes(), sp.Fault, can.Why, s.ActiveNodes()), s.W.Describe())
		}
		after := ackedBetween(sc, tEnd-30, tEnd+1)
		if ok && after == 0 {
			sc.Violate("C02", "stalled-after-heal:"+sp.Fault, "no client commit was acknowledged during the last 30 s although the cluster looks canonical", s.W.Describe())
		}
		if can.Master != "" {
			ackedLoss(sc, "C02", can.Master)
		}
		changed := can.Master != master
		sc.Coverf("%s|n=%d|casc=%v|w=%d|fo=%v|mfirst=%v|dur=%v|master_changed=%v", sp.Fault, sp.N, sp.Cascade, sp.W, sp.Failover, sp.MFirst, sp.DurationS, changed)
		sc.Cover("fault:" + sp.Fault)
		if changed {
			sc.Cover("outcome:master-changed")
		} else {
			sc.Cover("outcome:master-kept")
		}
		if before > 0 && after > 0 {
			sc.Cover("acked-before-and-after")
		}
		sc.Stat("acked_before", before)
		sc.Stat("acked_during", during)
		sc.Stat("acked_total", ackedBetween(sc, 0, 1e12))
		sc.Obs("fault=%s target=%s at %.1fs for %.0fs; master %s -> %s; acked before/during/after-window=%d/%d/%d; converged=%v at %.0fs",
			sp.Fault, target, tFault, sp.DurationS, master, can.Master, before, during, after, ok, tEnd)
	})
}

func init() {
	register(&Prop{ID: "C02", Units: func(tier string) int { return tierN(tier, 300, 3000) }, Run: c02Run,
		Floor: func(string) []string {
			f := []string{"outcome:master-changed", "outcome:master-kept", "acked-before-and-after", "apply-lag-at-fault"}
			for _, k := range c02Faults {
				f = append(f, "fault:"+k)
			}
			return f
		},
		Rule: "scenario i = fault kind i mod 16 with seeded cluster shape (2-4 HA, cascade, wait count, failover, adjust order), injection offset over the tick cycle, replicas that apply slower than the clients write (a third of the scenarios) and duration in {2,8,20,45,120}s; converge, inject, heal, quiesce; non-trivial = the fault was injected into a converged cluster and the run reached a verdict; distinct by (fault, n, cascade, w, failover, order, duration, master changed)"})
}
