package sim

import (
	"fmt"
	"math/rand"
	"strings"
	"sync"
	"sync/atomic"
	"time"

	"github.com/yandex/mysync/internal/config"
	"github.com/yandex/mysync/verif/fakezk"
	"github.com/yandex/mysync/verif/world"
)

// C10 — repair converges to the canonical topology without changing the recorded master.

type c10Node struct {
	RO      bool   `json:"read_only"`
	Offline bool   `json:"offline"`
	Source  string `json:"source"`    // none master other decoy
	Threads string `json:"threads"`   // run stop io_error sql_error permanent
	SS      string `json:"semi_sync"` // none slave master
	Ahead   bool   `json:"has_own_transactions"`
	// the first START REPLICA after a RESET REPLICA ALL fails once (error 1872)
	ResetBreaksStart bool `json:"first_start_after_reset_fails"`
}

type c10Spec struct {
	N          int       `json:"n_ha"`
	SemiSync   bool      `json:"semi_sync"`
	Aggressive bool      `json:"aggressive_repair"`
	MasterRO   bool      `json:"master_read_only"`
	MasterOff  bool      `json:"master_offline"`
	MasterSS   string    `json:"master_semi_sync"`
	Nodes      []c10Node `json:"nodes"`
	FailEvery  int       `json:"fail_every_nth_mutating_statement"`
	StartFails bool      `json:"first_start_replica_on_a_stale_master_fails"`     // the turn of a stale master fails at its last statement, once
	SSOffFails bool      `json:"first_semi_sync_disable_on_a_stale_master_fails"` // one step of taking it out of service fails, once
}

var (
	c10Sources = []string{"none", "master", "other", "decoy"}
	c10Threads = []string{"run", "stop", "io_error", "sql_error", "permanent", "sticky_error", "permanent_src", "recurring_error"}
	c10SS      = []string{"none", "slave", "master"}
)

func c10Gen(seed int64, idx int) c10Spec {
	r := rand.New(rand.NewSource(seed))
	sp := c10Spec{N: 3 + r.Intn(2), SemiSync: idx%2 == 0, Aggressive: (idx/2)%2 == 0, MasterRO: r.Intn(3) == 0, MasterOff: r.Intn(4) == 0, MasterSS: c10SS[r.Intn(3)]}
	// the first non-master node walks the grid systematically, the others are random
	g := idx / 4
	for i := 1; i < sp.N; i++ {
		var nd c10Node
		if i == 1 {
			nd = c10Node{RO: g%2 == 0, Offline: (g/2)%2 == 1, Source: c10Sources[(g/4)%4], Threads: c10Threads[(g/16)%8], SS: c10SS[(g/128)%3]}
		} else {
			nd = c10Node{RO: r.Intn(2) == 0, Offline: r.Intn(4) == 0, Source: c10Sources[r.Intn(4)], Threads: c10Threads[r.Intn(8)], SS: c10SS[r.Intn(3)]}
		}
		nd.Ahead = nd.Source == "none" && r.Intn(2) == 0
		nd.ResetBreaksStart = (idx/4)%3 == 1
		sp.Nodes = append(sp.Nodes, nd)
	}
	if r.Intn(3) == 0 {
		sp.FailEvery = 3 + r.Intn(6)
	}
	if sp.Nodes[0].Source == "none" && g%2 == 0 {
		sp.StartFails, sp.FailEvery = true, 0
	}
	if sp.Nodes[0].Source == "none" && g%2 == 1 && (g/2)%2 == 0 {
		sp.SSOffFails, sp.FailEvery = true, 0
	}
	return sp
}

const (
	c10Cooldown = 15 * time.Second
	c10Attempts = 3
)

func c10Run(u *Unit) {
	sp := c10Gen(u.Seed, u.Idx)
	hosts := append([]string(nil), haNames[:sp.N]...)
	master := hosts[0]
	opts := Opts{HA: hosts, Decoys: []string{"decoy-db0"}, Seed: u.Seed, Workload: true, WorkloadOnly: []string{master}, PreConverged: true,
		Cfg: func(h string, c *config.Config) {
			c.SemiSync = sp.SemiSync
			c.ReplicationRepairAggressiveMode = sp.Aggressive
			c.ReplicationRepairCooldown = c10Cooldown
			c.ReplicationRepairMaxAttempts = c10Attempts
			c.Failover = false
			c.InactivationDelay = 10 * time.Second
		}}
	u.Scenario(fmt.Sprintf("c10-%d", u.Idx), sp, opts, func(sc *Scen) {
		s := sc.S
		w := s.W
		var mu sync.Mutex
		resets := map[string][]time.Duration{}
		stmtN := 0
		// scrambled initial state
		w.Lock()
		ms := w.Servers[master]
		ms.ReadOnly, ms.SuperRO, ms.Offline = sp.MasterRO, sp.MasterRO, sp.MasterOff
		ms.SSMaster, ms.SSSlave = sp.MasterSS == "master", sp.MasterSS == "slave"
		stale := map[string]bool{}
		permanent := map[string]bool{}
		for i, nd := range sp.Nodes {
			x := w.Servers[hosts[i+1]]
			x.ReadOnly, x.SuperRO, x.Offline = nd.RO, nd.RO, nd.Offline
			x.SSMaster, x.SSSlave, x.SSReg = nd.SS == "master", nd.SS == "slave", nd.SS == "slave"
			x.ResetBreaksStart = nd.ResetBreaksStart
			switch nd.Source {
			case "none":
				x.Source, x.IORun, x.SQLRun = "", false, false
				stale[x.Host] = true
				if nd.Ahead {
					x.Executed.Add(x.UUID, 1)
				}
			case "master":
				x.Source = master
			case "other":
				x.Source = hosts[1+(i+1)%(sp.N-1)]
				if x.Source == x.Host {
					x.Source = master
				}
			case "decoy":
				x.Source = "decoy-db0"
			}
			if x.Source != "" {
				switch nd.Threads {
				case "run":
					x.IORun, x.SQLRun = true, true
				case "stop":
					x.IORun, x.SQLRun = false, false
				case "io_error":
					x.IORun, x.SQLRun, x.LastIOErrno = true, true, 2003
				case "sql_error":
					x.IORun, x.SQLRun, x.LastSQLErrno = true, true, 1062
				case "sticky_error":
					// not in the list of permanent errors, but it comes back after every START
					x.IORun, x.SQLRun, x.LastSQLErrno, x.StickyErr = true, true, 1032, true
				case "permanent":
					x.IORun, x.SQLRun, x.LastIOErrno, x.StickyErr = true, true, 13114, true
					permanent[x.Host] = true
				case "recurring_error":
					// an applier error (duplicate key) that returns whenever the SQL thread starts, also after a reset
					x.IORun, x.SQLRun, x.LastSQLErrno, x.RecurErr = true, true, 1062, 1062
				case "permanent_src":
					// a permanent error code that belongs to the current source (it purged the binary logs this replica needs):
					// it comes back after every START while the replica points there, and is gone once it is pointed elsewhere
					x.IORun, x.SQLRun, x.LastIOErrno, x.StickyErr, x.StickySource = true, true, 1236, true, x.Source
					if x.Source == master {
						permanent[x.Host] = true
					}
				}
			}
		}
		var startFailed, ssOffFailed atomic.Bool
		w.Fault = func(c *world.StmtCtx) world.FaultAction {
			if sp.StartFails && c.Class == "start_replica" && stale[c.Host] && startFailed.CompareAndSwap(false, true) {
				sc.Cover("turn-of-a-stale-master-failed-at-start")
				return world.FaultAction{Kind: "fail", Errno: 1872}
			}
			if sp.SSOffFails && c.Class == "ss_disable" && stale[c.Host] && ssOffFailed.CompareAndSwap(false, true) {
				sc.Cover("semi-sync-disable-on-a-stale-master-failed")
				return world.FaultAction{Kind: "fail", Errno: 1205}
			}
			if sp.FailEvery > 0 && c.Mut {
				mu.Lock()
				stmtN++
				n := stmtN
				mu.Unlock()
				if n%sp.FailEvery == 0 && n < 60 {
					return world.FaultAction{Kind: "fail", Errno: 1105}
				}
			}
			return world.FaultAction{}
		}
		w.AfterStmt = append(w.AfterStmt, func(w *world.World, c *world.StmtCtx) {
			if !strings.HasPrefix(c.Caller, "mysync_") {
				return
			}
			switch c.Class {
			case "change_source":
				if strings.HasSuffix(c.Text, "") && strings.Contains(c.Text, "_HOST = '"+c.Host+"'") {
					sc.Violate("C10", "server-pointed-at-itself", fmt.Sprintf("%s sent CHANGE SOURCE with host %s to %s itself", c.Caller, c.Host, c.Host))
				}
			case "reset_replica":
				if c.Errno != 0 {
					return
				}
				mu.Lock()
				resets[c.Host] = append(resets[c.Host], w.Now())
				l := resets[c.Host]
				mu.Unlock()
				sc.Cover("aggressive-reset")
				if !sp.Aggressive {
					sc.Violate("C10", "reset-without-aggressive-mode", fmt.Sprintf("%s reset the replication configuration of %s although aggressive repair is off", c.Caller, c.Host))
				}
				if len(l) > c10Attempts {
					sc.Violate("C10", "reset-beyond-attempt-limit", fmt.Sprintf("%s was reset %d times (limit %d)", c.Host, len(l), c10Attempts))
				}
				if len(l) >= 2 && l[len(l)-1]-l[len(l)-2] < c10Cooldown-time.Second {
					sc.Violate("C10", "reset-before-cooldown", fmt.Sprintf("%s was reset twice within %.1fs (cooldown %v)", c.Host, (l[len(l)-1]-l[len(l)-2]).Seconds(), c10Cooldown))
				}
			}
		})
		w.Unlock()
		s.OnZK(func(r fakezk.Rec) {
			if r.Path == NS+"/master" && isDaemon(s, r.Client) {
				sc.Violate("C10", "recorded-master-changed-by-repair", fmt.Sprintf("%s wrote the master key (%s %s) during repair", r.Client, r.Op, r.Data))
			}
		})
		s.Start()
		// K = 6 + attempts x (cooldown / tick) completed iterations, plus start-up
		k := 6 + 2*c10Attempts*int(c10Cooldown/(5*time.Second)) // two repair methods, each with its own attempts
		time.Sleep(time.Duration(k)*5*time.Second + 25*time.Second)
		// verdict on ground truth
		w.Lock()
		ms = w.Servers[master]
		var bad []string
		if ms.ReadOnly || ms.Offline {
			bad = append(bad, fmt.Sprintf("master %s read_only=%v offline=%v", master, ms.ReadOnly, ms.Offline))
		}
		a := s.ActiveNodesCached()
		need := len(a) / 2
		if need > 1 {
			need = 1
		}
		if sp.SemiSync {
			eff := 0
			if ms.SSMaster {
				eff = ms.WaitCount
			}
			if (need > 0) != (eff > 0) {
				bad = append(bad, fmt.Sprintf("master semi-sync (on=%v count=%d) does not match the list %v", ms.SSMaster, ms.WaitCount, a))
			}
		} else if ms.SSMaster || ms.SSSlave {
			bad = append(bad, "semi-sync still enabled on the master although disabled in the configuration")
		}
		for i, nd := range sp.Nodes {
			h := hosts[i+1]
			x := w.Servers[h]
			if !x.ReadOnly {
				bad = append(bad, h+" is not read-only")
			}
			exhausted := nd.Threads == "permanent" || x.StickyErr || x.RecurErr != 0
			if nd.Threads == "permanent_src" && (nd.Source == "other" || nd.Source == "decoy") && x.StickySource != master {
				// no repair attempt is involved: the error belongs to the wrong source, re-pointing to the recorded master cures it
				exhausted = false
				sc.Cover("permanent-error-of-a-wrong-source")
			}
			if !exhausted && !(x.Source == master && x.IORun && x.SQLRun && x.LastIOErrno == 0 && x.LastSQLErrno == 0) {
				if stale[h] && nd.Ahead {
					// a stale master with own transactions waits for resetup: must at least be a marked, offline, read-only replica
					if _, marked := s.Cached("recovery/" + h); !marked || !x.Offline || x.Source != master {
						bad = append(bad, fmt.Sprintf("stale master %s with own transactions: marked=%v offline=%v source=%q", h, marked, x.Offline, x.Source))
					}
				} else {
					bad = append(bad, fmt.Sprintf("%s is not a running replica of %s (source=%q io=%v sql=%v ioerr=%d sqlerr=%d)", h, master, x.Source, x.IORun, x.SQLRun, x.LastIOErrno, x.LastSQLErrno))
				}
			}
			if permanent[h] && x.Source != master && nd.Source != "none" {
				// allowed to stay broken, but it is still re-pointed; not required by the statement
				_ = h
			}
		}
		decoyDials := 0
		for caller, n := range w.Dials["decoy-db0"] {
			if strings.HasPrefix(caller, "mysync_") {
				decoyDials += n
			}
		}
		desc := w.DescribeLocked()
		w.Unlock()
		if decoyDials > 0 {
			sc.Violate("C10", "statement-to-unregistered-host", fmt.Sprintf("mysync opened %d connections to decoy-db0, which is registered nowhere", decoyDials))
		}
		if len(bad) > 0 && sp.FailEvery == 0 {
			sc.Violate("C10", "no-convergence:"+strings.SplitN(bad[0], " ", 3)[1], fmt.Sprintf("after %d manager iterations the cluster is not canonical: %v", k, bad), desc)
		}
		for i, nd := range sp.Nodes {
			sc.Cover("source:" + nd.Source)
			sc.Cover("threads:" + nd.Threads)
			sc.Cover("ss:" + nd.SS)
			_ = i
		}
		for h := range stale {
			// stale masters are taken offline and marked at some point
			seenOff, seenMark := false, false
			for _, e := range w.Events() {
				if e.Kind == "sql" && e.Class == "offline_on" && e.Host == h && e.Phase == "call" {
					seenOff = true
				}
				if e.Kind == "zk" && e.Host == NS+"/recovery/"+h && e.Class == "create" {
					seenMark = true
				}
			}
			if (!seenOff || !seenMark) && sp.FailEvery == 0 {
				sc.Violate("C10", "stale-master-not-marked-or-not-offline", fmt.Sprintf("stale master %s: taken offline=%v marked for recovery=%v", h, seenOff, seenMark))
			}
			sc.Cover("stale-master")
		}
		sc.Coverf("n=%d|semi=%v|aggr=%v|mro=%v|moff=%v|node1=%+v|fail=%d", sp.N, sp.SemiSync, sp.Aggressive, sp.MasterRO, sp.MasterOff, sp.Nodes[0], sp.FailEvery)
		sc.Obs("semi-sync=%v aggressive=%v master(ro=%v off=%v ss=%s) nodes=%+v failing every %d-th statement: after %d iterations not canonical: %v; resets %v", sp.SemiSync, sp.Aggressive, sp.MasterRO, sp.MasterOff, sp.MasterSS, sp.Nodes, sp.FailEvery, k, bad, resets)
	})
}

// c10Incidents: one manager, one replica, several separate incidents of a transient applier error, each cured by a
// single START REPLICA and followed by a healthy period with progress: the bookkeeping of cured incidents must not
// count against later ones.
func c10Incidents(u *Unit) {
	hosts := append([]string(nil), haNames[:3]...)
	master, h := hosts[0], hosts[1]
	aggressive := u.Idx%2 == 0
	opts := Opts{HA: hosts, Seed: u.Seed, Workload: true, WorkloadOnly: []string{master}, PreConverged: true,
		Cfg: func(_ string, c *config.Config) {
			c.ReplicationRepairAggressiveMode = aggressive
			c.ReplicationRepairCooldown = c10Cooldown
			c.ReplicationRepairMaxAttempts = c10Attempts
			c.Failover = false
			c.InactivationDelay = 3600 * time.Second
		}}
	spec := map[string]any{"family": "repeated_incidents", "aggressive_repair": aggressive}
	u.Scenario(fmt.Sprintf("c10-%d-incidents", u.Idx), spec, opts, func(sc *Scen) {
		s := sc.S
		w := s.W
		var mu sync.Mutex
		starts := 0 // START statements to h since the current incident began
		w.Lock()
		w.AfterStmt = append(w.AfterStmt, func(w *world.World, c *world.StmtCtx) {
			if c.Host != h || !strings.HasPrefix(c.Caller, "mysync_") || c.Errno != 0 {
				return
			}
			mu.Lock()
			defer mu.Unlock()
			switch c.Class {
			case "start_replica", "start_sql", "start_io":
				starts++
			case "reset_replica":
				if starts < c10Attempts {
					sc.Violate("C10", "reset-before-the-cheaper-method-was-exhausted", fmt.Sprintf("%s reset the replication configuration of %s after only %d START attempts in the current incident (limit %d per method)", c.Caller, h, starts, c10Attempts))
				}
				if !aggressive {
					sc.Violate("C10", "reset-without-aggressive-mode", fmt.Sprintf("%s reset the replication configuration of %s although aggressive repair is off", c.Caller, h))
				}
			}
		})
		w.Unlock()
		s.Start()
		time.Sleep(22 * time.Second)
		n := 2*c10Attempts + 1
		for k := 1; k <= n; k++ {
			mu.Lock()
			starts = 0
			mu.Unlock()
			w.Manual(h, "transient applier error 1205", func(x *world.Server) { x.LastSQLErrno = 1205 })
			ok := s.WaitUntil(c10Cooldown+25*time.Second, time.Second, func() bool {
				x := w.Snapshot()[h]
				return x.Source == master && x.IORun && x.SQLRun && x.LastSQLErrno == 0 && x.LastIOErrno == 0 && !x.Offline
			})
			if !ok {
				sc.Violate("C10", "transient-error-not-repaired", fmt.Sprintf("incident %d of %d on %s (each cured by one START REPLICA, healthy with progress for longer than the cooldown in between) was not repaired within %v", k, n, h, c10Cooldown+25*time.Second), w.Describe())
				break
			}
			sc.Coverf("incidents|aggr=%v|k=%d", aggressive, k)
			time.Sleep(c10Cooldown + 12*time.Second) // healthy, the master keeps writing
		}
		sc.Cover("repeated-incidents")
		sc.Obs("%d separate transient incidents on %s (aggressive=%v)", n, h, aggressive)
	})
}

// c10Deregistered: the operator stops a replica, removes it from the cluster (mysync host remove) and later starts
// its server again as a standalone, writable one, while the mysync daemon on that host keeps running - as the manager
// in half of the units. From two iterations after the removal on no daemon may change anything at that server, and no
// other daemon may talk to it at all.
func c10Deregistered(u *Unit) {
	n := 3 + u.Idx%2
	hosts := append([]string(nil), haNames[:n]...)
	master, h := hosts[0], hosts[1]
	mgrLocal := (u.Idx/2)%2 == 0
	opts := Opts{HA: hosts, Seed: u.Seed, Workload: true, WorkloadOnly: []string{master}, PreConverged: true,
		Cfg: func(_ string, c *config.Config) {
			c.Failover = false
			c.InactivationDelay = 10 * time.Second
		}}
	if mgrLocal {
		opts.FirstDaemon = h
	} else {
		opts.FirstDaemon = hosts[2]
	}
	spec := map[string]any{"family": "deregistered_host_with_running_daemon", "n_ha": n, "manager_on_the_removed_host": mgrLocal}
	u.Scenario(fmt.Sprintf("c10-%d-deregistered", u.Idx), spec, opts, func(sc *Scen) {
		s := sc.S
		w := s.W
		var removed atomic.Bool
		w.Lock()
		w.AfterStmt = append(w.AfterStmt, func(w *world.World, c *world.StmtCtx) {
			if !removed.Load() || c.Host != h || !strings.HasPrefix(c.Caller, "mysync_") || c.Class == "conn_init" {
				return
			}
			switch {
			case c.Mut:
				sc.Violate("C10", "mutating-statement-to-a-deregistered-host:"+c.Class, fmt.Sprintf("%s sent [%s] to %s, which the operator removed from the cluster %v earlier", c.Caller, c.Text, h, "more than two iterations"))
			case c.Caller != "mysync_"+h:
				sc.Violate("C10", "statement-to-a-deregistered-host", fmt.Sprintf("%s sent %s to %s, which the operator removed from the cluster more than two iterations earlier", c.Caller, c.Class, h))
			}
		})
		w.Unlock()
		s.OnZK(func(r fakezk.Rec) {
			if removed.Load() && isDaemon(s, r.Client) && r.Op == "create" && r.Path == NS+"/recovery/"+h {
				sc.Violate("C10", "deregistered-host-marked-for-recovery", fmt.Sprintf("%s created recovery/%s for a host that is not registered", r.Client, h))
			}
		})
		s.Start()
		time.Sleep(22 * time.Second)
		if in := s.InstByName(lockHolder(s)); in == nil || (in.Host == h) != mgrLocal {
			sc.Inconclusive("the intended daemon did not get the manager lock")
			return
		}
		w.Crash(h)
		time.Sleep(3 * time.Second)
		for _, p := range []string{"ha_nodes/", "cascade_nodes/", "resetup_status/"} {
			s.ZK.Remove("operator", NS+"/"+p+h)
		}
		time.Sleep(13 * time.Second)
		removed.Store(true)
		w.Restart(h)
		w.Manual(h, "operator: standalone writable server", func(x *world.Server) {
			x.Source, x.IORun, x.SQLRun, x.ReadOnly, x.SuperRO, x.Offline = "", false, false, false, false, false
			x.Executed.AddRange(x.UUID, 1, 2)
		})
		time.Sleep(60 * time.Second)
		x := w.Snapshot()[h]
		if x.ReadOnly || x.Source != "" || x.Offline {
			sc.Violate("C10", "deregistered-host-changed", fmt.Sprintf("%s was removed from the cluster and started as a standalone writable server; a minute later: read_only=%v offline=%v source=%q", h, x.ReadOnly, x.Offline, x.Source), w.Describe())
		}
		sc.Cover("deregistered-host-left-alone")
		sc.Coverf("deregistered|n=%d|mgrlocal=%v", n, mgrLocal)
		sc.Obs("%s removed from the cluster with its daemon running (manager there: %v), server restarted standalone: read_only=%v source=%q after a minute; active %v", h, mgrLocal, x.ReadOnly, x.Source, s.ActiveNodes())
	})
}

func c10Dispatch(u *Unit) {
	base := tierN(u.Job.Tier, 576, 4608)
	inc := tierN(u.Job.Tier, 16, 64)
	switch {
	case u.Idx >= base+inc:
		c10Deregistered(u)
	case u.Idx >= base:
		c10Incidents(u)
	default:
		c10Run(u)
	}
}

func init() {
	register(&Prop{ID: "C10", Units: func(tier string) int { return tierN(tier, 576, 4608) + tierN(tier, 16, 64) + tierN(tier, 8, 64) }, Run: c10Dispatch,
		Floor: func(string) []string {
			f := []string{"stale-master", "aggressive-reset", "permanent-error-of-a-wrong-source", "repeated-incidents", "deregistered-host-left-alone"}
			for _, x := range c10Sources {
				f = append(f, "source:"+x)
			}
			for _, x := range c10Threads {
				f = append(f, "threads:"+x)
			}
			for _, x := range c10SS {
				f = append(f, "ss:"+x)
			}
			return f
		},
		Rule: "(plus 8 units in which the operator removes a stopped replica from the cluster while the daemon on that host keeps running - as the manager in half of them - and restarts its server standalone and writable: no daemon changes anything there, no other daemon talks to it, no recovery mark) (plus 16 units of 7 separate transient incidents on one replica under one manager, each cured by one START and followed by a healthy period: every incident must be repaired, no reset before the cheaper method was exhausted in that incident) unit = initial state of a 3-4 node cluster: the first non-master node walks the grid read-only x offline x source {none, master, another replica, an unregistered decoy} x threads {running, stopped, IO error, SQL error, error cured by a reset only, permanent error code, permanent error code caused by the current source, applier error recurring even after a reset} x semi-sync flag (384 cells, all in thorough x 4 configurations, a prefix in quick), the other nodes and the master's flags are seeded; optionally every k-th mutating statement fails, and on a third of the shapes the first START REPLICA after a RESET REPLICA ALL fails once (error 1872); a decoy server exists in every run; bounded convergence is judged on ground truth after K iterations, safety clauses at every event; distinct by (configuration, master flags, grid cell, failure schedule)"})
}
