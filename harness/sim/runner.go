package sim

import (
	"encoding/json"
	"fmt"
	"os"
	"path/filepath"
	"runtime"
	"sort"
	"strings"
	"sync"
	"sync/atomic"
	"testing"
	"testing/synctest"
	"time"

	"github.com/yandex/mysync/verif/world"
)

// Violation is one monitor alarm.
type Violation struct {
	Property  string   `json:"property"`
	Signature string   `json:"signature"` // names the cause, not the symptom; matched against known findings
	What      string   `json:"what"`
	Witness   []string `json:"witness,omitempty"`
}

// ScenResult is the record one scenario leaves in the job output.
type ScenResult struct {
	Ev         string         `json:"ev"` // "scen"
	Unit       int            `json:"unit"`
	Name       string         `json:"name"`
	Spec       any            `json:"spec,omitempty"`
	Verdict    string         `json:"verdict"` // held violated inconclusive
	Why        string         `json:"why,omitempty"`
	Violations []Violation    `json:"violations,omitempty"`
	Cover      []string       `json:"cover,omitempty"`
	Stats      map[string]int `json:"stats,omitempty"`
	Obs        []string       `json:"obs,omitempty"` // key observations for evidence samples
	VirtS      float64        `json:"virt_s"`
	RealS      float64        `json:"real_s"`
	Dir        string         `json:"dir,omitempty"`
	Leaked     []string       `json:"leaked,omitempty"` // goroutines left at tear-down (creation sites)
}

// Job is what a child process is asked to do.
type Job struct {
	Property string   `json:"property"`
	Tier     string   `json:"tier"`
	Seed     int64    `json:"seed"`
	Units    []int    `json:"units"`
	Out      string   `json:"out"`
	Dir      string   `json:"dir"`
	Only     string   `json:"only,omitempty"` // run only the scenario with this name (replay)
	Skip     []string `json:"skip,omitempty"` // scenario names already done (resumption after a child died)
	KeepAll  bool     `json:"keep_all,omitempty"`
}

// Unit is the context a property's generator runs in.
type Unit struct {
	T    *testing.T
	Job  *Job
	Idx  int
	Seed int64 // derived from job seed and unit index
	out  *os.File
	n    int
}

// Scen is one scenario (one bubble).
type Scen struct {
	U    *Unit
	S    *Sim
	Name string
	Dir  string
	res  *ScenResult
	mu   sync.Mutex
}

var progress atomic.Int64 // advanced by every pump step of the running simulation
var running atomic.Pointer[string]

// Violate records a violation.
func (sc *Scen) Violate(prop, sig, what string, witness ...string) {
	sc.mu.Lock()
	defer sc.mu.Unlock()
	for _, v := range sc.res.Violations {
		if v.Signature == sig && v.Property == prop {
			return
		}
	}
	if len(witness) > 60 {
		witness = witness[len(witness)-60:]
	}
	sc.res.Violations = append(sc.res.Violations, Violation{Property: prop, Signature: sig, What: what, Witness: witness})
}

// Cover records an abstract case the scenario actually observed.
func (sc *Scen) Cover(key string) {
	sc.mu.Lock()
	defer sc.mu.Unlock()
	for _, k := range sc.res.Cover {
		if k == key {
			return
		}
	}
	sc.res.Cover = append(sc.res.Cover, key)
}

// Coverf is Cover with formatting.
func (sc *Scen) Coverf(f string, a ...any) { sc.Cover(fmt.Sprintf(f, a...)) }

// Obs records a key observation for the evidence samples.
func (sc *Scen) Obs(f string, a ...any) {
	sc.mu.Lock()
	defer sc.mu.Unlock()
	if len(sc.res.Obs) < 40 {
		sc.res.Obs = append(sc.res.Obs, fmt.Sprintf(f, a...))
	}
}

// Stat adds to a counter.
func (sc *Scen) Stat(key string, n int) {
	sc.mu.Lock()
	defer sc.mu.Unlock()
	if sc.res.Stats == nil {
		sc.res.Stats = map[string]int{}
	}
	sc.res.Stats[key] += n
}

// Inconclusive marks the scenario as not deciding.
func (sc *Scen) Inconclusive(why string) {
	sc.mu.Lock()
	defer sc.mu.Unlock()
	if sc.res.Why == "" {
		sc.res.Why = why
	}
}

func (u *Unit) emit(v any) {
	b, _ := json.Marshal(v)
	u.out.Write(append(b, '\n'))
	u.out.Sync()
}

// EventStrings renders events for witnesses.
func EventStrings(evs []world.Event) []string {
	out := make([]string, 0, len(evs))
	for _, e := range evs {
		s := e.String()
		if len(s) > 400 {
			s = s[:400] + "…"
		}
		out = append(out, s)
	}
	return out
}

var knownLeaked = map[string]bool{}

// newLeaked returns the stack blocks of goroutines that sit in a synctest bubble and were not
// reported before (bubbles of earlier scenarios keep their leftovers for the life of the process).
func newLeaked(all string) string {
	var out []string
	for _, block := range strings.Split(all, "\n\n") {
		first := block
		if i := strings.Index(block, "\n"); i > 0 {
			first = block[:i]
		}
		if !strings.HasPrefix(first, "goroutine ") || !strings.Contains(first, "synctest bubble") {
			continue
		}
		id := strings.Fields(first)[1]
		if knownLeaked[id] {
			continue
		}
		knownLeaked[id] = true
		out = append(out, block)
	}
	return strings.Join(out, "\n\n")
}

// leakSites extracts "created by" lines from a synctest deadlock panic message.
func leakSites(msg string) []string {
	seen := map[string]bool{}
	var out []string
	lines := strings.Split(msg, "\n")
	for i, l := range lines {
		if strings.HasPrefix(l, "created by ") {
			site := strings.TrimPrefix(l, "created by ")
			if j := strings.Index(site, " in goroutine"); j >= 0 {
				site = site[:j]
			}
			// attach the nearest mysync frame above, if any
			for k := i - 1; k >= 0 && !strings.HasPrefix(lines[k], "goroutine "); k-- {
				if strings.Contains(lines[k], "yandex/mysync/internal") && !strings.HasPrefix(lines[k], "\t") {
					f := lines[k]
					if p := strings.Index(f, "("); p > 0 {
						f = f[:p]
					}
					site += " <- " + f
					break
				}
			}
			if !seen[site] {
				seen[site] = true
				out = append(out, site)
			}
		}
	}
	sort.Strings(out)
	return out
}

// Scenario runs body inside a fresh synctest bubble with a fresh simulation and records the result.
// body must call sc.S.Stop() (via sc.Finish) before returning; Scenario does it if body forgot.
func (u *Unit) Scenario(name string, spec any, opts Opts, body func(sc *Scen)) *ScenResult {
	if u.Job.Only != "" && u.Job.Only != name && !strings.HasSuffix(name, "-baseline") {
		return nil // (a unit's fault-free baseline always runs: its fault list is derived from it)
	}
	for _, sk := range u.Job.Skip {
		if sk == name {
			return nil
		}
	}
	u.n++
	dir := filepath.Join(u.Job.Dir, fmt.Sprintf("u%d-%d", u.Idx, u.n))
	_ = os.MkdirAll(dir, 0o755)
	res := &ScenResult{Ev: "scen", Unit: u.Idx, Name: name, Spec: spec, Dir: dir}
	u.emit(map[string]any{"ev": "start", "unit": u.Idx, "name": name, "dir": dir})
	running.Store(&name)
	t0 := time.Now()
	var virt time.Duration
	func() {
		defer func() {
			if r := recover(); r != nil {
				msg := fmt.Sprint(r)
				if strings.Contains(msg, "deadlock: main bubble goroutine has exited") {
					// the goroutines left behind stay blocked in the dead bubble: list them
					buf := make([]byte, 16<<20)
					buf = buf[:runtime.Stack(buf, true)]
					dump := newLeaked(string(buf))
					res.Leaked = leakSites(dump)
					_ = os.WriteFile(filepath.Join(dir, "leak.txt"), []byte(msg+"\n\n"+dump), 0o644)
				} else {
					res.Why = "panic in harness goroutine: " + msg
					buf := make([]byte, 1<<16)
					buf = buf[:runtime.Stack(buf, false)]
					_ = os.WriteFile(filepath.Join(dir, "panic.txt"), []byte(msg+"\n"+string(buf)), 0o644)
				}
			}
		}()
		synctest.Test(u.T, func(t *testing.T) {
			v0 := time.Now()
			sc := &Scen{U: u, Name: name, Dir: dir, res: res}
			sc.S = New(dir, opts)
			sc.S.PumpHookInternal = func() { progress.Add(1) }
			body(sc)
			virt = time.Since(v0)
			// verdict and logs are written before tear-down
			if n := len(sc.S.W.Unrecognised); n > 0 {
				res.Why = fmt.Sprintf("%d unrecognised statements reached the fake MySQL, first: %s", n, sc.S.W.Unrecognised[0])
			}
			res.VirtS = virt.Seconds()
			if len(res.Violations) > 0 || u.Job.KeepAll {
				dumpLog(filepath.Join(dir, "events.log"), sc.S.W.Events())
				_ = os.WriteFile(filepath.Join(dir, "final.txt"), []byte(sc.S.W.Describe()+fmt.Sprint(sc.S.ZK.Tree())), 0o644)
			}
			sc.S.Stop()
		})
	}()
	res.RealS = time.Since(t0).Seconds()
	switch {
	case len(res.Violations) > 0:
		res.Verdict = "violated"
	case res.Why != "":
		res.Verdict = "inconclusive"
	default:
		res.Verdict = "held"
	}
	if res.Verdict == "held" && !u.Job.KeepAll && len(res.Leaked) == 0 {
		_ = os.RemoveAll(dir)
		res.Dir = ""
	}
	empty := ""
	running.Store(&empty)
	u.emit(res)
	// a child that has grown fat hands the rest of its units back to the supervisor
	var ms runtime.MemStats
	runtime.ReadMemStats(&ms)
	scenCount++
	if ms.HeapAlloc > 1500<<20 || scenCount >= 400 {
		u.emit(map[string]any{"ev": "yield", "heap_mb": ms.HeapAlloc >> 20, "scenarios": scenCount})
		os.Exit(0)
	}
	return res
}

var scenCount int

func dumpLog(path string, evs []world.Event) {
	f, err := os.Create(path)
	if err != nil {
		return
	}
	defer f.Close()
	for _, e := range evs {
		fmt.Fprintln(f, e.String())
	}
}

// Prop is one property's scenario family.
type Prop struct {
	ID    string
	Units func(tier string) int
	Run   func(u *Unit)
	// Floor lists coverage tokens that must each be observed by some scenario of a run.
	Floor func(tier string) []string
	// Rule says how cases are generated and what makes one distinct and non-trivial.
	Rule string
	// RaceUnits lists units that must run in the -race binary.
	RaceUnits func(tier string) []int
}

var props = map[string]*Prop{}

func register(p *Prop) { props[p.ID] = p }

// tierN picks a count by tier.
func tierN(tier string, quick, thorough int) int {
	if tier == "thorough" {
		return thorough
	}
	return quick
}

// Emitter appends JSON lines to a job's output file (used by the engines that do not need a simulation).
type Emitter struct{ f *os.File }

// Emit writes one record.
func (e *Emitter) Emit(v any) {
	b, _ := json.Marshal(v)
	e.f.Write(append(b, '\n'))
	e.f.Sync()
}

// OpenJob reads the job named by VERIF_JOB; nil if the variable is unset.
func OpenJob(t *testing.T) (*Job, *Emitter) {
	path := os.Getenv("VERIF_JOB")
	if path == "" {
		return nil, nil
	}
	raw, err := os.ReadFile(path)
	if err != nil {
		t.Fatal(err)
	}
	var job Job
	if err := json.Unmarshal(raw, &job); err != nil {
		t.Fatal(err)
	}
	out, err := os.OpenFile(job.Out, os.O_CREATE|os.O_WRONLY|os.O_APPEND, 0o644)
	if err != nil {
		t.Fatal(err)
	}
	_ = os.MkdirAll(job.Dir, 0o755)
	return &job, &Emitter{out}
}

// Pure runs a body that needs no simulation (direct calls of helpers) and records its result like a scenario.
func (u *Unit) Pure(name string, spec any, body func(sc *Scen)) *ScenResult {
	if u.Job.Only != "" && u.Job.Only != name {
		return nil
	}
	for _, sk := range u.Job.Skip {
		if sk == name {
			return nil
		}
	}
	res := &ScenResult{Ev: "scen", Unit: u.Idx, Name: name, Spec: spec}
	u.emit(map[string]any{"ev": "start", "unit": u.Idx, "name": name})
	t0 := time.Now()
	sc := &Scen{U: u, Name: name, res: res}
	body(sc)
	res.RealS = time.Since(t0).Seconds()
	switch {
	case len(res.Violations) > 0:
		res.Verdict = "violated"
	case res.Why != "":
		res.Verdict = "inconclusive"
	default:
		res.Verdict = "held"
	}
	u.emit(res)
	return res
}
