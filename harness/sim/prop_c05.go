package sim

import (
	"encoding/json"
	"fmt"
	"math/rand"
	"os"
	"strings"
	"sync"
	"sync/atomic"
	"time"

	"github.com/yandex/mysync/internal/config"
	"github.com/yandex/mysync/verif/fakezk"
	"github.com/yandex/mysync/verif/world"
)

// C05 — automatic failover is filed only when every gate is open (judged on the filing
// instance's own view: its coordination reads and the SQL replies it received), and a manager that
// cannot reach a master whose health record is good does nothing in that iteration.

type c05Spec struct {
	N                 int    `json:"n_ha"`
	Casc              bool   `json:"cascade"`
	SemiSync          bool   `json:"semi_sync"`
	W                 int    `json:"wait_count"`
	Failover          bool   `json:"failover"`
	DelayS            int    `json:"failover_delay_s"`
	Resetup           bool   `json:"resetup_crashed_hosts"`
	Maint             string `json:"maintenance"`   // none full_requested full_acked light
	LastSw            string `json:"last_switch"`   // none auto_young auto_old manual_young
	Master            string `json:"master_cond"`   // mysql_crash host_dead flapping ro_fs crash_recovered unreachable_from_manager zk_only_loss suspicious_between_bad
	Replicas          string `json:"replica_state"` // ok one_dead all_dead one_stopped one_status_fails
	List              string `json:"active_list"`   // full master_plus_one
	Handover          bool   `json:"manager_handover"`
	Rejected          bool   `json:"manual_request_rejected_after_the_last_failover"` // last_rejected_switch holds a manual request initiated after the last (automatic) switch
	Expect            string `json:"closed_gate_by_construction"`
	CooldownReadFails bool   `json:"reads_of_last_switch_fail_now_and_then"`     // inside the cool-down two of every three reads of last_switch fail with a connection error
	Raced             bool   `json:"operator_request_lands_during_the_approval"` // an operator's request is created between the manager's look at the switch key and its own filing
}

var c05Masters = []string{"mysql_crash", "host_dead", "flapping", "ro_fs", "crash_recovered", "unreachable_from_manager", "zk_only_loss", "suspicious_between_bad"}

func c05Gen(seed int64, idx int) c05Spec {
	r := rand.New(rand.NewSource(seed))
	sp := c05Spec{N: 2 + r.Intn(3), Casc: r.Intn(4) == 0, SemiSync: r.Intn(4) != 0, W: 1 + r.Intn(2), Failover: true, DelayS: []int{0, 15}[r.Intn(2)],
		Resetup: r.Intn(3) == 0, Maint: "none", LastSw: "none", Replicas: "ok", List: "full"}
	sp.Master = c05Masters[idx%len(c05Masters)]
	// close exactly one gate in most scenarios, none in the rest
	switch (idx / len(c05Masters)) % 9 {
	case 0, 1:
		sp.Expect = "all-open"
	case 2:
		sp.Failover, sp.Expect = false, "G1-disabled"
	case 3:
		sp.Maint = []string{"full_requested", "full_acked", "light"}[r.Intn(3)]
		sp.Expect = "G2-maintenance:" + sp.Maint
	case 4:
		sp.LastSw, sp.Expect = "auto_young", "G7-cooldown"
		sp.Rejected = r.Intn(2) == 0
		sp.CooldownReadFails = (idx/(9*len(c05Masters)))%2 == 0
	case 5:
		sp.Replicas, sp.Expect = "all_dead", "G6-quorum"
	case 6:
		sp.LastSw, sp.Expect = []string{"auto_old", "manual_young"}[r.Intn(2)], "all-open"
	case 7:
		sp.Replicas, sp.Expect = []string{"one_dead", "one_stopped"}[r.Intn(2)], "depends"
		sp.List = []string{"full", "master_plus_one"}[r.Intn(2)]
	case 8:
		sp.Handover, sp.Expect = true, "all-open"
	}
	if sp.Master == "suspicious_between_bad" {
		sp.DelayS = 15
	}
	if sp.Master == "unreachable_from_manager" || sp.Master == "zk_only_loss" {
		sp.Expect = "suspicious-or-still-replicating"
	}
	sp.Raced = sp.Expect == "all-open" && r.Intn(3) == 0
	if (idx/len(c05Masters))%9 == 7 && (idx/(9*len(c05Masters)))%2 == 0 {
		// the quorum edge: count 2 with a list of three - one dead replica closes the gate (quorum 3 - min(1, 2) = 2 alive)
		sp.N, sp.W, sp.SemiSync, sp.Replicas, sp.List, sp.Casc = 3, 2, true, "one_dead", "full", false
		if (idx/(9*len(c05Masters)))%4 == 2 {
			// ... or one replica answers pings while its replication status cannot be collected: not a known-alive replica
			sp.Replicas = "one_status_fails"
			if sp.Master != "suspicious_between_bad" {
				sp.DelayS = 0 // the failover is decided before the inactivation delay takes the replica off the list
			}
		}
	}
	return sp
}

type c05Iter struct {
	begin             time.Duration
	maint             string
	health            map[string]string
	active            []string
	activeSet         bool
	lastSwitch        string
	haNodes           []string
	cascade           []string
	ping              map[string]bool
	rs                map[string]string
	acts              []string // mutating actions after the instance's probe of the master had failed
	created           bool
	masterProbeFailed bool
	master            string          // the recorded master when the iteration began
	sentBefore        map[string]bool // statements sent before the probe of the master failed (they return later)
}

type c05Monitor struct {
	mu      sync.Mutex
	sc      *Scen
	sp      c05Spec
	it      map[string]*c05Iter
	streak  map[string]time.Duration // instance -> time of the earliest bad read of the current streak (-1 = none)
	Filed   int
	Suspect int
	curReq  string // initiated_by@initiated_at of the request in the switch key ("" = none)
	// lastSwitchKnown is the content of last_switch as last written (by a daemon) or successfully read (by anybody): what
	// the cool-down is judged against when the filing iteration's own read of the key failed
	lastSwitchKnown string
}

func newC05Monitor(sc *Scen, sp c05Spec) *c05Monitor {
	m := &c05Monitor{sc: sc, sp: sp, it: map[string]*c05Iter{}, streak: map[string]time.Duration{}}
	s := sc.S
	s.OnIter(func(inst, state, next string, begin bool) {
		m.mu.Lock()
		defer m.mu.Unlock()
		if state != "Manager" {
			if begin {
				delete(m.streak, inst) // no longer the current manager
			}
			return
		}
		if begin {
			m.it[inst] = &c05Iter{sentBefore: map[string]bool{}, master: s.CachedMaster(), begin: s.W.Now(), health: map[string]string{}, ping: map[string]bool{}, rs: map[string]string{}, maint: "unread"}
			return
		}
		m.endIter(inst)
	})
	s.OnDCS(func(inst, method, path, arg, res string) {
		m.mu.Lock()
		defer m.mu.Unlock()
		it := m.it[inst]
		if it == nil {
			return
		}
		switch {
		case method == "Get" && path == "maintenance":
			it.maint = res
		case method == "Get" && strings.HasPrefix(path, "health/"):
			it.health[strings.TrimPrefix(path, "health/")] = res
		case method == "Get" && path == "active_nodes" && !it.activeSet:
			it.activeSet = true
			_ = json.Unmarshal([]byte(res), &it.active)
		case method == "Get" && path == "last_switch":
			it.lastSwitch = res
			if !strings.HasPrefix(res, "error") {
				m.lastSwitchKnown = res
			}
		case (method == "Set" || method == "Create") && path == "last_switch" && res == "ok":
			m.lastSwitchKnown = arg
		case method == "GetChildren" && path == "ha_nodes":
			_ = json.Unmarshal([]byte(res), &it.haNodes)
		case method == "GetChildren" && path == "cascade_nodes":
			_ = json.Unmarshal([]byte(res), &it.cascade)
		}
		mutating := method == "Set" || method == "Create" || method == "Delete" || method == "SetEphemeral" || method == "CreateEphemeral"
		if mutating && !strings.HasPrefix(path, "health/") && !strings.HasPrefix(path, "resetup_status") && !strings.HasPrefix(path, "timing") &&
			!(strings.HasPrefix(path, "recovery/") && method == "Delete") && path != "optimization_nodes" && it.masterProbeFailed {
			it.acts = append(it.acts, "dcs "+method+" "+path)
		}
		if method == "Create" && path == "switch" && strings.Contains(arg, `"cause":"auto"`) && res == "ok" {
			it.created = true
			m.judgeFiling(inst, it)
		}
	})
	// "never while another switch request is active": the key holds at most one request, and a daemon never replaces
	// the request of somebody else with its own automatic one
	s.OnZK(func(r fakezk.Rec) {
		if strings.TrimPrefix(r.Path, NS+"/") != "switch" {
			return
		}
		m.mu.Lock()
		defer m.mu.Unlock()
		switch r.Op {
		case "delete":
			m.curReq = ""
		case "create", "set":
			var rec swRec
			if json.Unmarshal([]byte(r.Data), &rec) != nil {
				return
			}
			id := rec.id()
			if m.curReq != "" && m.curReq != id && isDaemon(s, r.Client) {
				m.sc.Violate("C05", "request-written-over-an-active-request", fmt.Sprintf("%s wrote its request %s (cause %s) over the active request %s", r.Client, id, rec.Cause, m.curReq))
			}
			m.curReq = id
		}
	})
	s.W.Lock()
	s.W.BeforeStmt = append(s.W.BeforeStmt, func(w *world.World, c *world.StmtCtx) {
		if !c.Mut {
			return
		}
		m.mu.Lock()
		defer m.mu.Unlock()
		if it := m.it[instOfCaller(c.Caller)]; it != nil && !it.masterProbeFailed {
			it.sentBefore[fmt.Sprintf("%s|%s|%d", c.Host, c.Class, c.Occ)] = true
		}
	})
	s.W.AfterStmt = append(s.W.AfterStmt, func(w *world.World, c *world.StmtCtx) {
		inst := instOfCaller(c.Caller)
		m.mu.Lock()
		defer m.mu.Unlock()
		it := m.it[inst]
		if it == nil {
			return
		}
		switch c.Class {
		case "dial":
			it.ping[c.Host] = false
		case "ping":
			it.ping[c.Host] = c.Errno == 0
		case "replica_status":
			if c.Errno == 0 {
				it.rs[c.Host] = c.Note
			} else {
				it.rs[c.Host] = "error"
			}
		}
		if c.Mut && it.masterProbeFailed && !it.sentBefore[fmt.Sprintf("%s|%s|%d", c.Host, c.Class, c.Occ)] {
			it.acts = append(it.acts, "sql "+c.Class+"@"+c.Host)
		}
		if (c.Class == "ping" || c.Class == "dial") && c.Host == it.master && c.Errno != 0 {
			it.masterProbeFailed = true
		}
	})
	s.W.Unlock()
	return m
}

type healthRec struct {
	PingOk bool `json:"ping_ok"`
	ROFS   bool `json:"is_file_system_readonly"`
	Daemon *struct {
		CrashRecovery bool `json:"crash_recovery"`
	} `json:"daemon_state"`
}

func parseHealth(res string) (bad bool, waiverFS bool, crashRec bool, ok bool) {
	if res == "notfound" || res == "" {
		return true, false, false, true
	}
	if strings.HasPrefix(res, "error") || res == "malformed" {
		return false, false, false, false
	}
	var h healthRec
	if err := json.Unmarshal([]byte(strings.TrimSuffix(res, "…")), &h); err != nil {
		// truncated JSON: fall back on substring tests
		h.PingOk = strings.Contains(res, `"ping_ok":true`)
		h.ROFS = strings.Contains(res, `"is_file_system_readonly":true`)
		crashRec = strings.Contains(res, `"crash_recovery":true`)
		return !h.PingOk || h.ROFS, h.ROFS, crashRec, true
	}
	cr := h.Daemon != nil && h.Daemon.CrashRecovery
	return !h.PingOk || h.ROFS, h.ROFS, cr, true
}

// endIter updates the observation history and applies the second oracle (monitor mutex held).
func (m *c05Monitor) endIter(inst string) {
	it := m.it[inst]
	delete(m.it, inst)
	if it == nil {
		return
	}
	master := it.master
	res, read := it.health[master]
	if !read {
		return
	}
	bad, _, _, ok := parseHealth(res)
	if !ok {
		return
	}
	if bad {
		if _, has := m.streak[inst]; !has {
			m.streak[inst] = it.begin
		}
	} else {
		delete(m.streak, inst)
		// second oracle: own probes of the master failed while its health record is good
		if it.masterProbeFailed {
			m.Suspect++
			m.sc.Cover("suspicious-master-iteration")
			if len(it.acts) > 0 {
				m.sc.Violate("C05", "acted-on-suspicious-master", fmt.Sprintf("%s could not reach master %s while its health record was good, and still did: %v", inst, master, it.acts))
			}
		}
	}
}

func (m *c05Monitor) judgeFiling(inst string, it *c05Iter) {
	m.Filed++
	s := m.sc.S
	in := s.InstByName(inst)
	if in == nil {
		return
	}
	cfg := in.Cfg
	master := s.CachedMaster()
	now := s.W.Now()
	var why []string
	fail := func(sig, f string, a ...any) {
		why = append(why, fmt.Sprintf(f, a...))
		m.sc.Violate("C05", "filed-with-closed-gate:"+sig, fmt.Sprintf("%s filed an automatic failover at %.1fs although %s", inst, now.Seconds(), fmt.Sprintf(f, a...)),
			fmt.Sprintf("view: maint=%s health=%v active=%v last_switch=%s ping=%v rs=%v", it.maint, it.health[master], it.active, it.lastSwitch, it.ping, it.rs))
	}
	if !cfg.Failover {
		fail("G1", "automatic failover is disabled in its configuration")
	}
	if it.maint != "notfound" {
		fail("G2", "its read of the maintenance key in that iteration returned %q", it.maint)
	}
	bad, fsWaiver, crashRec, ok := parseHealth(it.health[master])
	waived := fsWaiver || (crashRec && cfg.ResetupCrashedHosts)
	if _, read := it.health[master]; !read || !ok {
		fail("G4-unread", "it had not read the master's health record in that iteration")
	} else if !bad && !waived {
		fail("G4-good", "the master's health record it read was good")
	}
	start, has := m.streak[inst]
	if !has {
		start = it.begin
	}
	if !waived && cfg.FailoverDelay > 0 && now-start < cfg.FailoverDelay-100*time.Millisecond {
		fail("G4-delay", "the master's health record has been bad at every evaluation by this manager only since %.1fs (%.1fs < failover delay %v)", start.Seconds(), (now - start).Seconds(), cfg.FailoverDelay)
	}
	// replicas as seen by the instance
	casc := map[string]bool{}
	for _, c := range it.cascade {
		casc[c] = true
	}
	running, ha := 0, 0
	for _, h := range it.haNodes {
		if casc[h] {
			continue
		}
		ha++
		if h != master && it.ping[h] && strings.Contains(it.rs[h], "io=Yes sql=Yes") {
			running++
		}
	}
	if !waived && running > 0 && running == ha-1 {
		fail("G5", "every other HA node (%d) answered it with replication running", running)
	}
	alive := 0
	for _, h := range it.active {
		if h != master && !casc[h] && it.ping[h] && it.rs[h] != "" && it.rs[h] != "none" && it.rs[h] != "error" {
			alive++
		}
	}
	n := len(it.active)
	req := n / 2
	if cfg.RplSemiSyncMasterWaitForSlaveCount < req {
		req = cfg.RplSemiSyncMasterWaitForSlaveCount
	}
	quorum := n - req
	if quorum < 1 {
		quorum = 1
	}
	if !cfg.SemiSync {
		quorum = 1
	}
	if alive < quorum {
		fail("G6", "only %d alive replicas within the active list %v answered it, quorum is %d", alive, it.active, quorum)
	}
	lsw, lswNote := it.lastSwitch, ""
	if strings.HasPrefix(lsw, "error") {
		// the iteration could not read the key: the gate is judged against the content last written or read
		lsw, lswNote = m.lastSwitchKnown, " - this iteration's own read of last_switch failed ("+it.lastSwitch+")"
		m.sc.Cover("filed-after-a-failed-read-of-last_switch")
	}
	if lsw != "" && lsw != "notfound" {
		var ls struct {
			Cause  string `json:"cause"`
			Result *struct {
				FinishedAt time.Time `json:"finished_at"`
			} `json:"result"`
		}
		if json.Unmarshal([]byte(strings.TrimSuffix(lsw, "…")), &ls) == nil && ls.Cause == "auto" && ls.Result != nil {
			if age := time.Since(ls.Result.FinishedAt); age < cfg.FailoverCooldown {
				fail("G7", "the last automatic failover finished only %v ago (cooldown %v)%s", age, cfg.FailoverCooldown, lswNote)
			}
		}
	}
	wv := "none"
	if fsWaiver {
		wv = "ro-fs"
	} else if crashRec && cfg.ResetupCrashedHosts {
		wv = "crash-recovery"
	}
	m.sc.Cover("filed:waiver=" + wv)
	m.sc.Obs("%s filed at %.1fs: bad since %.1fs, delay %v, waiver=%s, running=%d/%d, alive in list=%d quorum=%d, closed gates: %v", inst, now.Seconds(), start.Seconds(), cfg.FailoverDelay, wv, running, ha-1, alive, quorum, why)
}

func c05Run(u *Unit) {
	sp := c05Gen(u.Seed, u.Idx)
	hosts := append([]string(nil), haNames[:sp.N]...)
	var casc map[string]string
	if sp.Casc {
		casc = map[string]string{"cas-db9": hosts[len(hosts)-1]}
	}
	managerOn := hosts[len(hosts)-1] // the manager runs on a replica's host so that killing the master's host does not kill it
	opts := Opts{HA: hosts, Cascade: casc, Seed: u.Seed, Workload: true, PreConverged: true, FirstDaemon: managerOn,
		Cfg: func(h string, c *config.Config) {
			c.SemiSync = sp.SemiSync
			c.RplSemiSyncMasterWaitForSlaveCount = sp.W
			c.Failover = sp.Failover
			c.FailoverDelay = time.Duration(sp.DelayS) * time.Second
			c.ResetupCrashedHosts = sp.Resetup
			c.InactivationDelay = 10 * time.Second
		}}
	u.Scenario(fmt.Sprintf("c05-%d-%s-%s", u.Idx, sp.Master, sp.Expect), sp, opts, func(sc *Scen) {
		s := sc.S
		master := hosts[0]
		mon := newC05Monitor(sc, sp)
		now := time.Now()
		mk := func(cause string, age time.Duration) string {
			return fmt.Sprintf(`{"from":"x","to":"","cause":%q,"initiated_by":"old","initiated_at":%q,"master_transition":"failover","started_by":"old","started_at":%q,"result":{"ok":true,"error":"","finished_at":%q}}`,
				cause, now.Add(-age-time.Minute).Format(time.RFC3339Nano), now.Add(-age-time.Minute).Format(time.RFC3339Nano), now.Add(-age).Format(time.RFC3339Nano))
		}
		switch sp.LastSw {
		case "auto_young":
			s.ZK.Put("setup", NS+"/last_switch", mk("auto", 10*time.Minute))
		case "auto_old":
			s.ZK.Put("setup", NS+"/last_switch", mk("auto", 2*time.Hour))
		case "manual_young":
			s.ZK.Put("setup", NS+"/last_switch", mk("manual", 10*time.Minute))
		}
		if sp.Rejected {
			t := now.Add(-2 * time.Minute)
			s.ZK.Put("setup", NS+"/last_rejected_switch", fmt.Sprintf(`{"from":"","to":"x","cause":"manual","initiated_by":"op","initiated_at":%q,"master_transition":"switchover","started_by":"","started_at":"0001-01-01T00:00:00Z","result":{"ok":false,"error":"rejected: no quorum","finished_at":%q}}`,
				t.Format(time.RFC3339Nano), t.Add(time.Second).Format(time.RFC3339Nano)))
			sc.Cover("rejected-request-after-last-failover")
		}
		if sp.List == "master_plus_one" && sp.N > 2 {
			b, _ := json.Marshal([]string{hosts[1], master})
			s.ZK.Put("setup", NS+"/active_nodes", string(b))
		}
		if sp.Raced {
			var once sync.Once
			s.OnDCS(func(inst, method, path, arg, res string) {
				// approveFailover's cool-down read comes after the manager found no request in the switch key and
				// right before it files its own
				if method == "Get" && path == "last_switch" {
					once.Do(func() {
						if fileSwitch(sc, "", hosts[1], "manual", "switchover", "operator") {
							sc.Cover("operator-request-raced-the-filing")
						}
					})
				}
			})
		}
		if sp.CooldownReadFails {
			// two of every three reads of last_switch fail as a dropped connection would make them (the key is read only by
			// approveFailover, after every other gate was found open)
			var nRead atomic.Int64
			s.DCSGate = func(name, method, path string) error {
				if method == "Get" && path == "last_switch" && nRead.Add(1)%3 != 1 {
					sc.Cover("read-of-last_switch-failed-inside-the-cooldown")
					return fmt.Errorf("zk: connection closed (injected)")
				}
				return nil
			}
		}
		s.Start()
		time.Sleep(13 * time.Second)
		switch sp.Maint {
		case "full_requested":
			// requested right before the failure; the manager acknowledges it on its next iteration
			defer func() {}()
		case "full_acked", "light":
			mode := "full"
			if sp.Maint == "light" {
				mode = "light"
			}
			s.ZK.Put("operator", NS+"/maintenance", fmt.Sprintf(`{"initiated_by":"op","initiated_at":%q,"mysync_paused":false,"should_leave":false,"mode":%q}`, time.Now().Format(time.RFC3339Nano), mode))
			time.Sleep(12 * time.Second)
		}
		switch sp.Replicas {
		case "one_dead":
			s.W.Crash(hosts[1])
		case "all_dead":
			for _, h := range hosts[1:] {
				s.W.Crash(h)
			}
		case "one_stopped":
			s.W.Manual(hosts[1], "stop replica", func(x *world.Server) { x.IORun, x.SQLRun = false, false })
		case "one_status_fails":
			s.W.Lock()
			s.W.Fault = func(c *world.StmtCtx) world.FaultAction {
				if c.Host == hosts[1] && c.Class == "replica_status" && c.Caller != "mysync_"+hosts[1] {
					return world.FaultAction{Kind: "fail", Errno: 1105}
				}
				return world.FaultAction{}
			}
			s.W.Unlock()
			sc.Cover("replica-status-of-a-pinging-replica-fails")
		}
		if sp.Replicas != "ok" && sp.Replicas != "one_status_fails" {
			// (a replica whose status cannot be collected leaves the list in the next iteration that evaluates it: that
			// condition begins together with the master's, so that the failover is decided on the full list)
			time.Sleep(3 * time.Second)
		}
		if sp.Maint == "full_requested" {
			s.ZK.Put("operator", NS+"/maintenance", fmt.Sprintf(`{"initiated_by":"op","initiated_at":%q,"mysync_paused":false,"should_leave":false,"mode":"full"}`, time.Now().Format(time.RFC3339Nano)))
		}
		// the master's condition
		runFor := 70 * time.Second
		switch sp.Master {
		case "mysql_crash":
			s.W.Crash(master)
		case "host_dead":
			s.W.Crash(master)
			s.Kill(master)
		case "flapping":
			// bad periods around the failover delay, with good observations in between
			go func() {
				periods := []time.Duration{6 * time.Second, 11 * time.Second, 14 * time.Second, 17 * time.Second}
				for _, p := range periods {
					s.W.Crash(master)
					time.Sleep(p)
					s.W.Restart(master)
					time.Sleep(11 * time.Second)
				}
			}()
			runFor = 100 * time.Second
		case "ro_fs":
			s.SetROFS(master, true)
		case "crash_recovered":
			// the error log says crash recovery started after the (real) process start time the pid file points at
			line := time.Now().AddDate(100, 0, 0).Format("2006-01-02T15:04:05.000000-07:00") + " 0 [Note] [MY-012551] [InnoDB] Starting crash recovery.\n"
			_ = os.WriteFile(s.Dir+"/"+master+".err", []byte(line), 0o644)
			s.W.Crash(master)
			s.W.Restart(master)
			// the daemon re-reads the daemon state only when the start time changes: restart it as a host reboot would
			in := s.Kill(master)
			<-in.Done()
			s.StartInst(master, 0)
		case "unreachable_from_manager":
			mgr := lockHolder(s)
			if in := s.InstByName(mgr); in != nil {
				s.W.Cut(in.Host, master, true)
			}
		case "zk_only_loss":
			s.CutZK(master, true)
		case "suspicious_between_bad":
			// a history of observations: one bad evaluation while the replicas still replicate (the master's daemon is
			// away for a moment), then a good record that the manager cannot confirm (it cannot reach the master's MySQL)
			// for longer than the delay, then the master really dies: the delay counts from the last streak only
			mgr := lockHolder(s)
			if in := s.InstByName(mgr); in != nil {
				s.W.Cut(in.Host, master, true)
			}
			in := s.Kill(master)
			<-in.Done()
			time.Sleep(9 * time.Second)
			s.StartInst(master, 0)
			time.Sleep(time.Duration(sp.DelayS+8) * time.Second)
			s.W.Crash(master)
		}
		if sp.Handover {
			// in the middle of the bad streak the lock moves to another daemon
			time.Sleep(7 * time.Second)
			if in := s.InstByName(lockHolder(s)); in != nil {
				s.ExpireSession(in.Name)
			}
		}
		time.Sleep(runFor)
		mon.mu.Lock()
		filed, suspect := mon.Filed, mon.Suspect
		mon.mu.Unlock()
		sc.Stat("filed", filed)
		sc.Stat("suspicious_iterations", suspect)
		if filed > 0 {
			sc.Cover("filed")
			sc.Coverf("filed|master=%s|maint=%s|last=%s|repl=%s|list=%s|delay=%d|resetup=%v|semi=%v|handover=%v", sp.Master, sp.Maint, sp.LastSw, sp.Replicas, sp.List, sp.DelayS, sp.Resetup, sp.SemiSync, sp.Handover)
		} else {
			sc.Cover("not-filed:" + strings.SplitN(sp.Expect, ":", 2)[0])
			sc.Coverf("none|master=%s|expect=%s|repl=%s|semi=%v", sp.Master, sp.Expect, sp.Replicas, sp.SemiSync)
		}
		sc.Obs("master condition %s, maintenance %s, last switch %s, replicas %s, list %s, failover=%v delay=%ds: %d automatic requests filed, %d suspicious-master iterations; expected by construction: %s",
			sp.Master, sp.Maint, sp.LastSw, sp.Replicas, sp.List, sp.Failover, sp.DelayS, filed, suspect, sp.Expect)
	})
}

func init() {
	register(&Prop{ID: "C05", Units: func(tier string) int { return tierN(tier, 288, 7200) }, Run: c05Run,
		Floor: func(string) []string {
			return []string{"filed", "filed:waiver=none", "filed:waiver=ro-fs", "not-filed:G1-disabled", "not-filed:G2-maintenance", "not-filed:G7-cooldown", "not-filed:G6-quorum", "suspicious-master-iteration"}
		},
		Rule: "scenario = master condition (8 kinds, one of them a three-phase history: a bad evaluation, then a good record the manager cannot confirm for longer than the delay, then the real failure) x one gate closed by construction (or none) x seeded cluster shape, delay, resetup switch, last-switch record, replica states, list contents, manager hand-over in mid-streak; every creation of an automatic request is judged against all gates on the filing instance's own view; non-trivial = a request was filed, or exactly one gate was closed and none was filed (counted separately); distinct by the tuple in the cover key"})
}
