package sim

import (
	"encoding/json"
	"fmt"
	"math/rand"
	"os"
	"strings"
	"sync"
	"sync/atomic"
	"time"

	"github.com/yandex/mysync/internal/config"
	"github.com/yandex/mysync/verif/fakezk"
	"github.com/yandex/mysync/verif/world"
)

// C09 — maintenance freezes automation; leaving re-learns the real master.

type c09Spec struct {
	N         int      `json:"n_ha"`
	Mode      string   `json:"mode"` // full light
	DisableSS bool     `json:"disable_semi_sync_on_maintenance"`
	Events    []string `json:"events_during_maintenance"`
	Topology  string   `json:"operator_topology"` // keep move_master two_masters no_master
	Leave     bool     `json:"leave"`
	FailMW    bool     `json:"first_write_of_the_master_key_on_leaving_fails"`
	ByDelete  bool     `json:"maintenance_key_deleted_by_hand"` // instead of mysync maint off
	EnterRace string   `json:"enter_race"`                      // none switch_pending master_dead
	Casc      bool     `json:"cascade_replica"`                 // a cascade replica streams from the last HA host; under two_masters it is the host the operator turns into the second master
}

var c09Events = []string{"restart_daemon_with_marker", "restart_daemon_without_marker", "restart_all_daemons", "zk_cut_one", "zk_outage", "crash_replica", "crash_master", "file_switch", "stop_replication", "restart_during_zk_outage"}

func c09Gen(seed int64, idx int) c09Spec {
	r := rand.New(rand.NewSource(seed))
	sp := c09Spec{N: 2 + r.Intn(3), Mode: "full", DisableSS: r.Intn(2) == 0, Leave: r.Intn(5) != 0}
	if idx%4 == 3 {
		sp.Mode = "light"
	}
	k := 1 + r.Intn(3)
	for i := 0; i < k; i++ {
		sp.Events = append(sp.Events, c09Events[r.Intn(len(c09Events))])
	}
	sp.Topology = []string{"keep", "keep", "move_master", "two_masters", "no_master"}[r.Intn(5)]
	sp.FailMW = sp.Leave && sp.Topology == "move_master" && r.Intn(2) == 0
	sp.EnterRace = []string{"none", "none", "switch_pending", "master_dead"}[r.Intn(4)]
	if sp.Mode == "full" && idx%8 == 5 {
		// the operator leaves two masters (or none) behind and ends maintenance by deleting the key: leaving fails, and the
		// cluster has to stay frozen
		sp.Events, sp.EnterRace, sp.Leave, sp.ByDelete, sp.FailMW = nil, "none", true, true, false
		sp.Topology = []string{"two_masters", "no_master"}[(idx/8)%2]
		if sp.N < 3 {
			sp.N = 3
		}
	}
	if sp.Mode == "full" && idx%8 == 2 {
		// the operator stops replication on a replica, then everybody loses the coordination service for longer than
		// the session timeout: the master's daemon must stay in maintenance, not fence a master without a live group
		sp.Events = []string{"stop_replication", "zk_outage_long"}
		sp.EnterRace = "none"
	}
	if sp.Mode == "light" && idx%8 == 7 {
		// an automatic failover was started and its attempt failed before the operator asks for light maintenance
		sp.EnterRace, sp.Events, sp.Leave, sp.FailMW = "failover_started_and_failing", nil, false, false
		if sp.N < 3 {
			sp.N = 3
		}
	}
	sp.Casc = sp.Mode == "full" && idx%4 == 1
	return sp
}

type srvFP struct {
	RO, SRO, Off, SSM, SSS bool
	WC, SB, FL             int
	Src                    string
	IO, SQL                bool
}

func fpOf(s *world.Server) srvFP {
	return srvFP{s.ReadOnly, s.SuperRO, s.Offline, s.SSMaster, s.SSSlave, s.WaitCount, s.SyncBinlog, s.FlushLog, s.Source, s.IORun, s.SQLRun}
}

type c09Monitor struct {
	mu          sync.Mutex
	sc          *Scen
	mode        string
	acked       bool // full maintenance acknowledged (mysync_paused=true) and key present
	lightAcked  bool
	shouldLeave bool
	before      map[string]srvFP // per caller|host fingerprint before the statement
	iterBegin   map[string]time.Duration
	leaveAt     time.Duration
	lockTrue    map[string]bool // instance got AcquireLock=true in its current iteration
	Frozen      int             // mutating statements observed (and judged) during acknowledged maintenance
	Deleted     bool
	deletedBy   string
	lightStart  int
	swStartedAt time.Time // started_at of the request in the switch key as last written
	Repairs     int
}

func newC09Monitor(sc *Scen, mode string) *c09Monitor {
	m := &c09Monitor{sc: sc, mode: mode, before: map[string]srvFP{}, iterBegin: map[string]time.Duration{}, lockTrue: map[string]bool{}}
	s := sc.S
	s.OnZK(func(r fakezk.Rec) {
		p := strings.TrimPrefix(r.Path, NS+"/")
		s.W.Lock()
		m.mu.Lock()
		defer s.W.Unlock()
		defer m.mu.Unlock()
		daemon := isDaemon(s, r.Client)
		switch p {
		case "maintenance":
			switch r.Op {
			case "create", "set":
				var mt struct {
					Paused bool   `json:"mysync_paused"`
					Leave  bool   `json:"should_leave"`
					Mode   string `json:"mode"`
				}
				if json.Unmarshal([]byte(r.Data), &mt) == nil {
					if mt.Mode == "light" {
						m.lightAcked = mt.Paused
					} else {
						m.acked = mt.Paused
					}
					if mt.Leave && !m.shouldLeave {
						m.shouldLeave, m.leaveAt = true, s.W.Now()
					}
				}
			case "delete":
				m.judgeLeave(s.W, r.Client, daemon)
				if !daemon && m.acked && len(mastersAlive(s.W, s.AllHosts())) != 1 {
					// the key removed by hand while the cluster has no / several masters: leaving cannot succeed, "the mode is
					// kept" - the freeze goes on although the key is gone
					m.sc.Cover("maintenance-key-deleted-by-hand-with-wrong-topology")
					m.lightAcked, m.shouldLeave = false, false
					return
				}
				m.acked, m.lightAcked, m.shouldLeave = false, false, false
			}
		case "master", "active_nodes":
			if m.acked && daemon && !m.exemptLocked(s.W, r.Client) {
				m.sc.Violate("C09", "coordination-write-during-full-maintenance:"+p, fmt.Sprintf("%s wrote %s (%s %s) while full maintenance is acknowledged", r.Client, p, r.Op, r.Data))
			}
		case "switch":
			if r.Op == "create" || r.Op == "set" {
				var rec swRec
				if json.Unmarshal([]byte(r.Data), &rec) != nil {
					return
				}
				prevStart := m.swStartedAt
				m.swStartedAt = rec.StartedAt
				if m.lightAcked && daemon && rec.Transition == "failover" {
					if r.Op == "create" {
						m.sc.Violate("C09", "failover-filed-under-light-maintenance", fmt.Sprintf("%s filed a failover request while light maintenance is acknowledged: %s", r.Client, r.Data))
					} else if rec.StartedBy != "" && (rec.Result == nil || !rec.StartedAt.Equal(prevStart)) {
						// a first start, or a retry of a request whose earlier attempt failed (the old result stays in the record)
						m.sc.Violate("C09", "failover-started-under-light-maintenance", fmt.Sprintf("%s started a failover-type request while light maintenance is acknowledged: %s", r.Client, r.Data))
					}
				}
			} else if r.Op == "delete" {
				m.swStartedAt = time.Time{}
			}
		}
	})
	s.OnIter(func(inst, state, next string, begin bool) {
		m.mu.Lock()
		defer m.mu.Unlock()
		if begin {
			m.iterBegin[inst] = s.W.Now()
			m.lockTrue[inst] = false
		}
	})
	s.OnDCS(func(inst, method, path, arg, res string) {
		if method == "AcquireLock" && res == "true" {
			m.mu.Lock()
			m.lockTrue[inst] = true
			m.mu.Unlock()
		}
	})
	s.W.Lock()
	s.W.BeforeStmt = append(s.W.BeforeStmt, func(w *world.World, c *world.StmtCtx) {
		if !c.Mut || !strings.HasPrefix(c.Caller, "mysync_") {
			return
		}
		m.mu.Lock()
		m.before[c.Caller+"|"+c.Host] = fpOf(w.Servers[c.Host])
		m.mu.Unlock()
	})
	s.W.AfterStmt = append(s.W.AfterStmt, func(w *world.World, c *world.StmtCtx) {
		if !c.Mut || !strings.HasPrefix(c.Caller, "mysync_") || c.Errno != 0 {
			return
		}
		m.mu.Lock()
		defer m.mu.Unlock()
		inst := instOfCaller(c.Caller)
		if m.lightAcked {
			m.Repairs++
		}
		if !m.acked {
			return
		}
		m.Frozen++
		b, ok := m.before[c.Caller+"|"+c.Host]
		if !ok || b == fpOf(w.Servers[c.Host]) {
			return // no effective change
		}
		if m.exemptLocked(w, inst) {
			return
		}
		m.sc.Violate("C09", "server-changed-during-full-maintenance:"+c.Class, fmt.Sprintf("%s changed %s with %s (%+v -> %+v) while full maintenance is acknowledged (should_leave=%v)", inst, c.Host, c.Class, b, fpOf(w.Servers[c.Host]), m.shouldLeave),
			w.DescribeLocked())
	})
	s.W.Unlock()
	return m
}

func mastersAlive(w *world.World, hosts []string) []string {
	var out []string
	for _, h := range hosts {
		if s := w.Servers[h]; s != nil && s.Up && s.Source == "" {
			out = append(out, h)
		}
	}
	return out
}

// exemptLocked: the lock holder's leave procedure after should_leave was written and exactly one master exists.
func (m *c09Monitor) exemptLocked(w *world.World, inst string) bool {
	if !m.shouldLeave || !m.lockTrue[inst] {
		return false
	}
	if beg, ok := m.iterBegin[inst]; !ok || beg < m.leaveAt {
		return false
	}
	return len(mastersAlive(w, m.sc.S.AllHosts())) == 1
}

func (m *c09Monitor) judgeLeave(w *world.World, client string, daemon bool) {
	if !daemon {
		return
	}
	m.Deleted, m.deletedBy = true, client
	ms := mastersAlive(w, m.sc.S.AllHosts())
	if len(ms) != 1 {
		m.sc.Violate("C09", fmt.Sprintf("left-maintenance-with-%d-masters", len(ms)), fmt.Sprintf("%s deleted the maintenance key while %d alive servers have no replication configured: %v", client, len(ms), ms), w.DescribeLocked())
		return
	}
	master := m.sc.S.CachedMaster()
	if master != ms[0] {
		m.sc.Violate("C09", "left-maintenance-with-wrong-recorded-master", fmt.Sprintf("%s deleted the maintenance key; the only master is %s but the recorded master is %q", client, ms[0], master))
	}
	var a []string
	if v, ok := m.sc.S.Cached("active_nodes"); ok {
		_ = json.Unmarshal([]byte(v), &a)
	}
	if len(a) == 0 || !contains(a, ms[0]) {
		m.sc.Violate("C09", "left-maintenance-with-bad-active-list", fmt.Sprintf("%s deleted the maintenance key with active list %v (master %s)", client, a, ms[0]))
	}
	m.sc.Cover("left-with-one-master")
}

func c09Run(u *Unit) {
	sp := c09Gen(u.Seed, u.Idx)
	hosts := append([]string(nil), haNames[:sp.N]...)
	var casc map[string]string
	if sp.Casc {
		casc = map[string]string{"cas-db9": hosts[len(hosts)-1]}
	}
	opts := Opts{HA: hosts, Cascade: casc, Seed: u.Seed, Workload: true, PreConverged: true,
		Cfg: func(h string, c *config.Config) {
			c.DisableSemiSyncReplicationOnMaintenance = sp.DisableSS
			c.FailoverDelay = 5 * time.Second
			c.InactivationDelay = 10 * time.Second
		}}
	u.Scenario(fmt.Sprintf("c09-%d-%s-%s", u.Idx, sp.Mode, sp.Topology), sp, opts, func(sc *Scen) {
		s := sc.S
		mon := newC09Monitor(sc, sp.Mode)
		var failArmed, failDone atomic.Bool
		if sp.FailMW {
			// (installed before the daemons start; armed when the operator asks to leave)
			s.DCSGate = func(name, method, path string) error {
				if method == "Set" && path == "master" && failArmed.Load() && failDone.CompareAndSwap(false, true) {
					sc.Cover("master-write-failed-on-leaving")
					return fmt.Errorf("zk: connection closed (injected)")
				}
				return nil
			}
		}
		s.Start()
		time.Sleep(14 * time.Second)
		master := hosts[0]
		switch sp.EnterRace {
		case "switch_pending":
			fileSwitch(sc, "", hosts[1], "manual", "switchover", "operator")
		case "master_dead":
			if sp.Mode == "full" {
				s.W.Crash(master)
				time.Sleep(time.Second)
			}
		case "failover_started_and_failing":
			var failing atomic.Bool
			failing.Store(true)
			s.W.Lock()
			s.W.Fault = func(c *world.StmtCtx) world.FaultAction {
				if failing.Load() && c.Host != master && (c.Class == "set_writable" || c.Class == "reset_replica") {
					return world.FaultAction{Kind: "fail", Errno: 1205}
				}
				return world.FaultAction{}
			}
			s.W.Unlock()
			s.W.Crash(master)
			failed := s.WaitUntil(90*time.Second, 500*time.Millisecond, func() bool {
				v, ok := s.Cached("switch")
				return ok && strings.Contains(v, `"master_transition":"failover"`) && !strings.Contains(v, `"run_count":0`) && strings.Contains(v, `"run_count"`)
			})
			if !failed {
				sc.Inconclusive("the automatic failover did not fail its first attempt within 90 s")
				return
			}
			sc.Cover("failover-attempt-failed-before-light-maintenance")
			s.ZK.CreateIfAbsent("operator", NS+"/maintenance", fmt.Sprintf(`{"initiated_by":"op","initiated_at":%q,"mysync_paused":false,"should_leave":false,"mode":"light"}`, time.Now().Format(time.RFC3339Nano)))
			if !s.WaitUntil(40*time.Second, time.Second, func() bool { v, _ := s.Cached("maintenance"); return strings.Contains(v, `"mysync_paused":true`) }) {
				sc.Cover("not-acknowledged")
				return
			}
			sc.Cover("acknowledged:light")
			time.Sleep(8 * time.Second)
			failing.Store(false) // from here on an attempt would go through
			time.Sleep(40 * time.Second)
			if v, ok := s.Cached("switch"); ok && strings.Contains(v, `"master_transition":"failover"`) {
				sc.Cover("started-failover-parked-by-light-maintenance")
			}
			sc.Coverf("mode=light|race=%s|n=%d|dss=%v", sp.EnterRace, sp.N, sp.DisableSS)
			sc.Obs("light maintenance entered after a failed attempt of an automatic failover: request now %v, master %q, active %v", func() string { v, _ := s.Cached("switch"); return v }(), s.Master(), s.ActiveNodes())
			return
		}
		s.ZK.CreateIfAbsent("operator", NS+"/maintenance", fmt.Sprintf(`{"initiated_by":"op","initiated_at":%q,"mysync_paused":false,"should_leave":false,"mode":%q}`, time.Now().Format(time.RFC3339Nano), sp.Mode))
		ackd := s.WaitUntil(40*time.Second, time.Second, func() bool {
			v, _ := s.Cached("maintenance")
			return strings.Contains(v, `"mysync_paused":true`)
		})
		if !ackd {
			sc.Cover("not-acknowledged")
			sc.Obs("maintenance (%s) was not acknowledged within 40 s (enter race %s)", sp.Mode, sp.EnterRace)
			return
		}
		sc.Cover("acknowledged:" + sp.Mode)
		time.Sleep(6 * time.Second) // candidates follow
		if sp.EnterRace == "master_dead" && sp.Mode == "full" {
			s.W.Restart(master)
		}
		for _, ev := range sp.Events {
			h := hosts[s.Rng.Intn(len(hosts))]
			switch ev {
			case "restart_daemon_with_marker", "restart_daemon_without_marker":
				in := s.Kill(h)
				<-in.Done()
				if ev == "restart_daemon_without_marker" {
					s.RemoveFile(h, "maint")
				}
				s.StartInst(h, 0)
				sc.Cover("restart-in-maintenance")
			case "restart_all_daemons":
				var ins []*Inst
				for _, x := range hosts {
					ins = append(ins, s.Kill(x))
				}
				for i, in := range ins {
					<-in.Done()
					s.StartInst(hosts[i], time.Duration(i)*300*time.Millisecond)
				}
				sc.Cover("restart-in-maintenance")
			case "restart_during_zk_outage":
				s.ZKOutage(true)
				in := s.Kill(h)
				<-in.Done()
				if s.Rng.Intn(2) == 0 {
					s.RemoveFile(h, "maint")
				}
				s.StartInst(h, 0)
				time.Sleep(25 * time.Second)
				s.ZKOutage(false)
				sc.Cover("restart-during-outage")
			case "zk_cut_one":
				s.CutZK(h, true)
				time.Sleep(time.Duration(5+s.Rng.Intn(40)) * time.Second)
				s.CutZK(h, false)
				sc.Cover("outage-in-maintenance")
			case "zk_outage":
				s.ZKOutage(true)
				time.Sleep(time.Duration(5+s.Rng.Intn(40)) * time.Second)
				s.ZKOutage(false)
				sc.Cover("outage-in-maintenance")
			case "zk_outage_long":
				s.ZKOutage(true)
				time.Sleep(60 * time.Second)
				s.ZKOutage(false)
				sc.Cover("outage-in-maintenance")
			case "crash_replica":
				s.W.Crash(hosts[1])
				time.Sleep(10 * time.Second)
				s.W.Restart(hosts[1])
			case "crash_master":
				s.W.Crash(master)
				time.Sleep(20 * time.Second)
				s.W.Restart(master)
				if sp.Mode == "full" {
					// the operator brings the restarted master back by hand
					s.W.Manual(master, "operator: online and writable", func(x *world.Server) { x.ReadOnly, x.SuperRO, x.Offline = false, false, false })
				}
			case "file_switch":
				fileSwitch(sc, "", hosts[1], "manual", "switchover", "operator")
			case "stop_replication":
				s.W.Manual(hosts[len(hosts)-1], "operator: stop replica", func(x *world.Server) { x.IORun, x.SQLRun = false, false })
			}
			time.Sleep(time.Duration(8+s.Rng.Intn(15)) * time.Second)
		}
		if sp.Mode == "light" {
			// an operator-forced failover request must stay parked; the master's death must not trigger one
			fileSwitch(sc, master, "", "manual", "failover", "operator")
			time.Sleep(20 * time.Second)
			if v, ok := s.Cached("switch"); ok && strings.Contains(v, `"master_transition":"failover"`) {
				sc.Cover("failover-request-parked")
				s.ZK.Remove("operator", NS+"/switch")
			}
			s.W.Manual(hosts[len(hosts)-1], "operator: stop replica", func(x *world.Server) { x.IORun, x.SQLRun = false, false })
			time.Sleep(15 * time.Second)
			s.W.Lock()
			r := s.W.Servers[hosts[len(hosts)-1]]
			repaired := r.IORun && r.SQLRun
			s.W.Unlock()
			if repaired {
				sc.Cover("repair-under-light-maintenance")
			}
			s.W.Crash(s.Master())
			time.Sleep(40 * time.Second)
			sc.Cover("master-dead-under-light-maintenance")
			s.W.Restart(s.Master())
			time.Sleep(15 * time.Second)
		} else {
			// operator topology edits under full maintenance
			switch sp.Topology {
			case "move_master":
				nm := hosts[1]
				s.W.Lock()
				for _, h := range hosts {
					x := s.W.Servers[h]
					if h == nm {
						x.Source, x.IORun, x.SQLRun, x.ReadOnly, x.SuperRO, x.Offline = "", false, false, false, false, false
					} else {
						x.Source, x.IORun, x.SQLRun, x.ReadOnly, x.SuperRO = nm, true, true, true, true
						x.Retrieved = world.NewSet()
					}
				}
				s.W.LogLocked(world.Event{Kind: "world", Who: "operator", Host: nm, Class: "manual", Arg: "move master to " + nm, Mut: true})
				s.W.Unlock()
			case "two_masters":
				second := hosts[1]
				if sp.Casc {
					second = "cas-db9"
					sc.Cover("second-master-is-the-cascade-replica")
				}
				s.W.Manual(second, "operator: second master", func(x *world.Server) {
					x.Source, x.IORun, x.SQLRun, x.ReadOnly, x.SuperRO = "", false, false, false, false
				})
			case "no_master":
				s.W.Manual(master, "operator: master made a replica", func(x *world.Server) {
					x.Source, x.IORun, x.SQLRun, x.ReadOnly, x.SuperRO = hosts[1], true, true, true, true
				})
			}
			time.Sleep(30 * time.Second)
		}
		if sp.Leave && sp.ByDelete {
			s.ZK.Remove("operator", NS+"/maintenance")
			time.Sleep(60 * time.Second) // the monitor keeps judging every daemon statement and list / master write
			s.W.Lock()
			ms := mastersAlive(s.W, s.AllHosts())
			s.W.Unlock()
			sc.Cover(fmt.Sprintf("kept-with-%d-masters", min(len(ms), 2)))
		} else if sp.Leave {
			failArmed.Store(true)
			v, _ := s.Cached("maintenance")
			var mt map[string]any
			_ = json.Unmarshal([]byte(v), &mt)
			if mt != nil {
				mt["should_leave"] = true
				b, _ := json.Marshal(mt)
				s.ZK.Put("operator", NS+"/maintenance", string(b))
			}
			s.W.Lock()
			ms := mastersAlive(s.W, s.AllHosts())
			s.W.Unlock()
			// while leaving keeps failing the other daemons re-enter their handlers back to back (thousands of
			// coordination requests per virtual second): keep that window short when leaving cannot succeed
			wait := 60 * time.Second
			if len(ms) != 1 {
				wait = 20 * time.Second
			}
			s.WaitUntil(wait, time.Second, func() bool { _, st := s.Cached("maintenance"); return !st })
			_, still := s.Cached("maintenance")
			s.W.Lock()
			ms = mastersAlive(s.W, s.AllHosts())
			s.W.Unlock()
			switch {
			case len(ms) == 1 && still:
				// bounded: leaving with exactly one master must succeed while a manager exists
				sc.Violate("C09", "did-not-leave-with-one-master", fmt.Sprintf("within 60 s after should_leave the maintenance key was not removed although exactly one master (%v) exists", ms), s.W.Describe())
			case len(ms) != 1 && still:
				sc.Cover(fmt.Sprintf("kept-with-%d-masters", min(len(ms), 2)))
				if len(ms) > 1 {
					found := false
					for _, in := range s.AllInsts {
						if _, err := os.Stat(in.Cfg.Emergefile); err == nil {
							found = true
						}
					}
					if !found {
						sc.Violate("C09", "no-emergency-file-with-several-masters", fmt.Sprintf("leaving maintenance failed with masters %v but no instance wrote its emergency file", ms))
					}
				}
			}
		}
		mon.mu.Lock()
		frozen, deleted, by := mon.Frozen, mon.Deleted, mon.deletedBy
		mon.mu.Unlock()
		sc.Stat("mutating_statements_judged_in_maintenance", frozen)
		sc.Coverf("mode=%s|dss=%v|events=%v|topo=%s|leave=%v|race=%s|deleted=%v", sp.Mode, sp.DisableSS, sp.Events, sp.Topology, sp.Leave, sp.EnterRace, deleted)
		sc.Obs("mode %s, events %v, operator topology %s, leave=%v: %d mutating mysync statements judged while acknowledged, key deleted=%v by %s, master now %q, active %v",
			sp.Mode, sp.Events, sp.Topology, sp.Leave, frozen, deleted, by, s.Master(), s.ActiveNodes())
	})
}

func init() {
	register(&Prop{ID: "C09", Units: func(tier string) int { return tierN(tier, 240, 6000) }, Run: c09Run,
		Floor: func(string) []string {
			return []string{"acknowledged:full", "acknowledged:light", "restart-in-maintenance", "outage-in-maintenance", "restart-during-outage", "left-with-one-master", "kept-with-0-masters", "kept-with-2-masters",
				"failover-request-parked", "repair-under-light-maintenance", "master-dead-under-light-maintenance", "started-failover-parked-by-light-maintenance"}
		},
		Rule: "scenario = maintenance mode (full / light) x semi-sync-off-on-entry switch x entry race (pending switch, dead master, an automatic failover whose first attempt failed) x 1-3 events during maintenance (daemon restarts with and without marker file, all daemons, restarts during a coordination outage, cuts and outages, server crashes, filed switch requests, stopped replication) x operator topology edit (keep, move the master, two masters, no master) x leave; oracle A judges every effective change of a server variable or replication setting by a daemon (ground-truth fingerprint before/after each statement) and every write of master/active_nodes while full maintenance is acknowledged, exempting the lock holder's leave procedure; oracle B watches failover-type requests under light maintenance; oracle C judges the deletion of the key on ground truth; distinct by the cover tuple"})
}
