package sim

import (
	"encoding/json"
	"fmt"
	"math/rand"
	"strings"
	"sync"
	"sync/atomic"
	"time"

	"github.com/yandex/mysync/internal/config"
	"github.com/yandex/mysync/verif/fakezk"
	"github.com/yandex/mysync/verif/world"
)

// C11 — recovery protocol: marking, exclusion while marked, clearing only by the host itself
// once clean, resetup file otherwise.

type c11Spec struct {
	Family     string `json:"family"` // lifecycle stale_master failover_return
	N          int    `json:"n_ha"`
	Relation   string `json:"relation"`    // behind equal ahead diverged
	Repl       string `json:"replication"` // running stopped io_error none
	RO         bool   `json:"read_only"`
	Resetup    bool   `json:"resetup_file_present"`
	Stuck      bool   `json:"stuck_commits"`
	Second     bool   `json:"switch_to_marked_host"`
	Tool       bool   `json:"resetup_tool"`
	SlowOwn    bool   `json:"own_statements_take_60ms"`
	StartFails bool   `json:"first_start_replica_on_the_stale_master_fails"`
	ListFails  bool   `json:"every_third_read_of_the_recovery_list_fails"` // a healthy replica kept marked by its resetup file, while every third GetChildren(recovery) fails
}

func c11Gen(seed int64, idx int) c11Spec {
	r := rand.New(rand.NewSource(seed))
	sp := c11Spec{N: 3 + r.Intn(2)}
	sp.Family = []string{"lifecycle", "lifecycle", "lifecycle", "stale_master", "failover_return"}[idx%5]
	g := idx / 5
	sp.Relation = []string{"behind", "equal", "ahead", "diverged"}[g%4]
	sp.Repl = []string{"running", "stopped", "io_error", "none"}[(g/4)%4]
	sp.RO = (g/16)%2 == 0
	sp.Resetup = r.Intn(5) == 0
	sp.Stuck = sp.Repl == "none" && r.Intn(2) == 0
	sp.Second = r.Intn(3) == 0
	sp.Tool = r.Intn(3) == 0
	// the marked host's daemon gets its answers slowly: clients commit and the replica applies between two reads of
	// one recovery check
	sp.SlowOwn = sp.Family == "lifecycle" && r.Intn(2) == 0
	sp.StartFails = sp.Family == "stale_master" && (idx/5)%2 == 0
	if sp.Family == "lifecycle" && idx%5 != 0 && (sp.Relation == "behind" || sp.Relation == "equal") && sp.Repl == "running" && sp.RO {
		// a clean, replicating replica that stays marked because its resetup file is there (nobody rebuilds it), and a
		// coordination service that now and then fails the manager's read of the list of marked hosts
		sp.ListFails, sp.Resetup, sp.Tool, sp.Stuck = true, true, false, false
	}
	return sp
}

type c11Monitor struct {
	mu        sync.Mutex
	sc        *Scen
	marked    map[string]time.Duration
	Cleared   map[string]string
	checkedAt map[string][]time.Duration // host -> instants at which its own recovery check ran while marked (Get recovery/<h> by h returned ok)
	dirtyAt   map[string]time.Duration   // host -> first instant at which its own check ran while it was ahead / in replication error
	stuckAt   map[string]time.Duration
	ever      map[string]bool
	placed    map[string]bool          // resetup file put there by the scenario, not by the daemon
	wasDirty  map[string]time.Duration // host -> last instant at which ground truth had it dirty or stuck
}

func newC11Monitor(sc *Scen) *c11Monitor {
	m := &c11Monitor{sc: sc, marked: map[string]time.Duration{}, Cleared: map[string]string{}, checkedAt: map[string][]time.Duration{}, dirtyAt: map[string]time.Duration{}, stuckAt: map[string]time.Duration{}, ever: map[string]bool{}, placed: map[string]bool{}, wasDirty: map[string]time.Duration{}}
	s := sc.S
	// clause 4 the other way round: the resetup file is for a host that holds transactions the master lacks, whose
	// replication is in error or whose commits are stuck - never for a replica that was clean all along. Ground truth
	// is sampled at every own check and when the file appears (a replica's set only grows towards the master's, so a
	// host clean at both instants and in between was clean whenever the daemon looked).
	s.OnFile(func(h, kind string, appeared bool) {
		if kind != "resetup" || !appeared {
			return
		}
		s.W.Lock()
		m.mu.Lock()
		defer s.W.Unlock()
		defer m.mu.Unlock()
		w := s.W
		if m.placed[h] {
			return
		}
		master := s.CachedMaster()
		x, ms := w.Servers[h], w.Servers[master]
		if x == nil || ms == nil || !x.Up || !ms.Up || h == master || x.Source != master {
			return
		}
		if _, d := m.wasDirty[h]; d {
			return
		}
		if x.LastIOErrno != 0 || x.LastSQLErrno != 0 || !x.Executed.SubsetOf(ms.Executed) || w.PendingLocked(h) > 0 {
			return
		}
		if len(m.checkedAt[h]) == 0 {
			return
		}
		m.sc.Violate("C11", "resetup-file-for-a-clean-replica", fmt.Sprintf("the resetup file of %s appeared while it replicates from the master %s without error, holds no transaction the master lacks (and did not at any of its %d own checks) and has no stuck commits", h, master, len(m.checkedAt[h])), w.DescribeLocked())
	})
	s.OnZK(func(r fakezk.Rec) {
		p := strings.TrimPrefix(r.Path, NS+"/")
		s.W.Lock()
		m.mu.Lock()
		defer s.W.Unlock()
		defer m.mu.Unlock()
		w := s.W
		switch {
		case strings.HasPrefix(p, "recovery/"):
			h := strings.TrimPrefix(p, "recovery/")
			switch r.Op {
			case "create":
				m.marked[h] = w.Now()
				m.ever[h] = true
				m.sc.Cover("marked-by:" + map[bool]string{true: "daemon", false: "operator"}[isDaemon(s, r.Client)])
			case "delete":
				delete(m.marked, h)
				if !isDaemon(s, r.Client) {
					return
				}
				in := s.InstByName(r.Client)
				m.Cleared[h] = r.Client
				if in == nil || in.Host != h {
					m.sc.Violate("C11", "mark-cleared-by-another-daemon", fmt.Sprintf("recovery/%s was deleted by %s", h, r.Client))
					return
				}
				x := w.Servers[h]
				master := s.CachedMaster()
				ms := w.Servers[master]
				var why []string
				if x == nil || ms == nil {
					return
				}
				if !x.ReadOnly {
					why = append(why, "not read-only")
				}
				if x.Source == "" {
					why = append(why, "no replication configured")
				}
				if x.LastIOErrno != 0 || x.LastSQLErrno != 0 {
					why = append(why, "replication in error")
				}
				if !x.Executed.SubsetOf(ms.Executed) {
					why = append(why, "holds transactions the master lacks: "+x.Executed.Minus(ms.Executed).OneLine())
				}
				if len(why) > 0 {
					m.sc.Violate("C11", "mark-cleared-while-not-clean:"+strings.Fields(why[0])[0], fmt.Sprintf("%s cleared its own recovery mark while %v", h, why), w.DescribeLocked())
				}
				m.sc.Cover("cleared-by-own-daemon")
			}
		case p == "active_nodes" && (r.Op == "set" || r.Op == "create"):
			var a []string
			_ = json.Unmarshal([]byte(r.Data), &a)
			for _, h := range a {
				if _, mk := m.marked[h]; mk && h != s.CachedMaster() {
					m.sc.Violate("C11", "marked-host-in-active-list", fmt.Sprintf("%s published %v while %s is marked for recovery", r.Client, a, h))
				}
			}
		}
	})
	// the same clause at the end of every completed manager iteration (the list may have been written while the marked
	// host still was the recorded master, and the master key moved afterwards)
	s.OnIter(func(inst, state, next string, begin bool) {
		if begin || state != "Manager" || next != "Manager" {
			return
		}
		a := s.ActiveNodesCached()
		master := s.CachedMaster()
		m.mu.Lock()
		defer m.mu.Unlock()
		for _, h := range a {
			if _, mk := m.marked[h]; mk && h != master {
				if _, still := s.Cached("recovery/" + h); still {
					m.sc.Violate("C11", "marked-host-in-active-list-after-iteration", fmt.Sprintf("after a completed manager iteration of %s the published list %v contains %s, which is marked for recovery and is not the recorded master %s", inst, a, h, master))
				}
			}
		}
		m.sc.Cover("list-judged-after-iteration")
	})
	// the host's own check: its recoveryChecker reads recovery/<self> every interval
	s.OnDCS(func(inst, method, path, arg, res string) {
		in := s.InstByName(inst)
		if in == nil || method != "Get" || path != "recovery/"+in.Host || res == "notfound" || strings.HasPrefix(res, "error") {
			return
		}
		h := in.Host
		s.W.Lock()
		m.mu.Lock()
		defer s.W.Unlock()
		defer m.mu.Unlock()
		w := s.W
		x, ms := w.Servers[h], w.Servers[s.CachedMaster()]
		if x == nil || ms == nil || !x.Up || !ms.Up || h == s.CachedMaster() {
			return
		}
		m.checkedAt[h] = append(m.checkedAt[h], w.Now())
		dirty := x.Source != "" && (x.LastIOErrno != 0 || x.LastSQLErrno != 0 || !x.Executed.SubsetOf(ms.Executed))
		if dirty || w.PendingLocked(h) > 0 || x.Source != s.CachedMaster() {
			m.wasDirty[h] = w.Now()
		}
		if dirty {
			if _, ok := m.dirtyAt[h]; !ok {
				m.dirtyAt[h] = w.Now()
			}
		} else {
			delete(m.dirtyAt, h)
		}
		if w.PendingLocked(h) > 0 {
			if _, ok := m.stuckAt[h]; !ok {
				m.stuckAt[h] = w.Now()
			}
		} else {
			delete(m.stuckAt, h)
		}
	})
	s.W.Lock()
	s.W.BeforeStmt = append(s.W.BeforeStmt, func(w *world.World, c *world.StmtCtx) {
		if c.Class != "set_writable" || c.Host == s.CachedMaster() {
			return
		}
		m.mu.Lock()
		defer m.mu.Unlock()
		if _, mk := m.marked[c.Host]; mk {
			m.sc.Violate("C11", "marked-host-promoted", fmt.Sprintf("%s makes %s writable while it is marked for recovery", c.Caller, c.Host))
		}
	})
	s.W.Unlock()
	return m
}

func c11Run(u *Unit) {
	sp := c11Gen(u.Seed, u.Idx)
	hosts := append([]string(nil), haNames[:sp.N]...)
	master, h := hosts[0], hosts[1]
	opts := Opts{HA: hosts, Seed: u.Seed, Workload: true, WorkloadOnly: []string{master, hosts[2]}, PreConverged: true, ResetupTool: sp.Tool,
		Cfg: func(host string, c *config.Config) {
			c.FailoverDelay = 5 * time.Second
			c.InactivationDelay = 10 * time.Second
			if sp.Family == "failover_return" && (u.Idx/5)%2 == 1 {
				// the failover completes while the dead master is still inside the grace period of the list
				c.InactivationDelay = 40 * time.Second
			}
		}}
	u.Scenario(fmt.Sprintf("c11-%d-%s-%s-%s", u.Idx, sp.Family, sp.Relation, sp.Repl), sp, opts, func(sc *Scen) {
		s := sc.S
		mon := newC11Monitor(sc)
		var listArmed atomic.Bool
		if sp.ListFails {
			var nList atomic.Int64
			s.DCSGate = func(name, method, path string) error {
				if method == "GetChildren" && path == "recovery" && listArmed.Load() && nList.Add(1)%3 == 0 {
					sc.Cover("read-of-the-recovery-list-failed-while-a-host-is-marked")
					return fmt.Errorf("zk: connection closed (injected)")
				}
				return nil
			}
		}
		s.Start()
		time.Sleep(13 * time.Second)
		w := s.W
		shape := func(x *world.Server, ms *world.Server) {
			switch sp.Relation {
			case "behind":
				x.ApplyRate, x.DownloadRate = 1, 1
				x.Executed = ms.Executed.Minus(world.MustParse(fmt.Sprintf("%s:%d-%d", ms.UUID, ms.Executed.Max(ms.UUID)-40, ms.Executed.Max(ms.UUID))))
				x.Retrieved = world.NewSet()
			case "ahead":
				x.Executed.AddRange(x.UUID, 1, 3)
			case "diverged":
				x.Executed.AddRange(x.UUID, 1, 2)
				x.Executed = x.Executed.Minus(world.MustParse(fmt.Sprintf("%s:%d", ms.UUID, ms.Executed.Max(ms.UUID))))
				x.IORun = false
			}
			switch sp.Repl {
			case "stopped":
				x.IORun, x.SQLRun = false, false
			case "io_error":
				x.LastIOErrno, x.StickyErr = 1593, true
			case "none":
				x.Source, x.IORun, x.SQLRun = "", false, false
			}
			x.ReadOnly, x.SuperRO = sp.RO, sp.RO
		}
		switch sp.Family {
		case "lifecycle":
			if sp.Resetup {
				mon.mu.Lock()
				mon.placed[h] = true
				mon.mu.Unlock()
				touch(s.Dir + "/" + h + ".resetup")
			}
			w.Lock()
			shape(w.Servers[h], w.Servers[master])
			if sp.Stuck {
				x := w.Servers[h]
				x.ReadOnly, x.SuperRO, x.SSMaster, x.WaitCount = false, false, true, 1
			}
			w.LogLocked(world.Event{Kind: "world", Who: "operator", Host: h, Class: "manual", Arg: "shape " + sp.Relation + "/" + sp.Repl, Mut: true})
			if sp.SlowOwn {
				w.Fault = func(c *world.StmtCtx) world.FaultAction {
					if c.Caller == "mysync_"+h && c.Class != "conn_init" {
						return world.FaultAction{Kind: "delay", Delay: 60 * time.Millisecond}
					}
					return world.FaultAction{}
				}
			}
			w.Unlock()
			if sp.Stuck {
				s.O.WorkloadOnly = []string{master, h}
			}
			s.ZK.Put("operator", NS+"/recovery/"+h, "null")
			listArmed.Store(true)
		case "stale_master":
			if sp.Second {
				// the host is first away for longer than the inactivation delay (evicted from the list), and comes back
				// without its replication configuration
				w.Crash(h)
				s.WaitUntil(40*time.Second, time.Second, func() bool { return !contains(s.ActiveNodes(), h) })
				time.Sleep(3 * time.Second)
				w.Restart(h)
				sc.Cover("stale-master-evicted-first")
			}
			if sp.StartFails {
				// the turn of the stale master fails at its last statement, once: on the retry the host looks like a
				// stopped replica, not like a stale master
				var once atomic.Bool
				w.Lock()
				w.Fault = func(c *world.StmtCtx) world.FaultAction {
					if c.Class == "start_replica" && c.Host == h && strings.HasPrefix(c.Caller, "mysync_") && once.CompareAndSwap(false, true) {
						sc.Cover("turn-of-the-stale-master-failed-at-start")
						return world.FaultAction{Kind: "fail", Errno: 1872}
					}
					return world.FaultAction{}
				}
				w.Unlock()
			}
			w.Manual(h, "replication configuration lost", func(x *world.Server) {
				x.Source, x.IORun, x.SQLRun = "", false, false
				x.ReadOnly, x.SuperRO = sp.RO, sp.RO
				if sp.Relation == "ahead" || sp.Relation == "diverged" {
					x.Executed.AddRange(x.UUID, 1, 2)
				}
			})
			t0 := w.Now()
			marked := s.WaitUntil(12*time.Second, 250*time.Millisecond, func() bool { mon.mu.Lock(); defer mon.mu.Unlock(); return mon.ever[h] })
			if !marked {
				sc.Violate("C11", "stale-master-not-marked", fmt.Sprintf("%s lost its replication configuration at %.1fs (claims to be master beside the recorded one) and is not marked for recovery 12 s (two manager iterations) later", h, t0.Seconds()), w.Describe())
			} else {
				sc.Cover("stale-master-marked")
			}
		case "failover_return":
			w.Crash(master)
			s.WaitUntil(60*time.Second, time.Second, func() bool { return s.Master() != master && s.Master() != "" })
			if s.Master() == master {
				sc.Inconclusive("no failover happened")
				return
			}
			if _, ok := s.Cached("recovery/" + master); !ok {
				if v, ok2 := s.Cached("last_switch"); ok2 && strings.Contains(v, `"ok":true`) {
					sc.Violate("C11", "old-master-not-marked-after-failover", fmt.Sprintf("failover from the dead %s is recorded as succeeded but recovery/%s does not exist", master, master))
				}
			} else {
				sc.Cover("old-master-marked-by-failover")
			}
			time.Sleep(10 * time.Second)
			if sp.Relation == "ahead" || sp.Relation == "diverged" {
				w.Manual(master, "binlogged but unreplicated transactions", func(x *world.Server) { x.Executed.AddRange(x.UUID, x.Executed.Max(x.UUID)+1, x.Executed.Max(x.UUID)+2) })
			}
			w.Restart(master)
			h = master
			master = s.Master()
		}
		if sp.Second {
			time.Sleep(7 * time.Second)
			if _, mk := s.Cached("recovery/" + h); mk {
				fileSwitch(sc, "", h, "manual", "switchover", "operator")
				sc.Cover("switch-to-marked-host-filed")
			}
		}
		time.Sleep(100 * time.Second)
		// clause 4: a dirty host writes its resetup file (and keeps the mark) once its own check has seen it dirty
		mon.mu.Lock()
		dirtyAt, hasDirty := mon.dirtyAt[h]
		checks := len(mon.checkedAt[h])
		_, cleared := mon.Cleared[h]
		mon.mu.Unlock()
		_, stillMarked := s.Cached("recovery/" + h)
		fileSeen := false
		for _, e := range w.Events() {
			if e.Kind == "file" && e.Host == h && e.Class == "resetup" && e.Res == "appeared" {
				fileSeen = true
			}
		}
		if hasDirty && w.Now()-dirtyAt > 15*time.Second && !sp.Resetup && !fileSeen && stillMarked {
			sc.Violate("C11", "dirty-host-without-resetup-file", fmt.Sprintf("%s has been checking itself since %.1fs while holding transactions the master lacks or with replication in error, and its resetup file never appeared", h, dirtyAt.Seconds()), w.Describe())
		}
		if fileSeen {
			sc.Cover("resetup-file-written")
		}
		if cleared {
			sc.Cover("mark-cleared")
		} else if stillMarked {
			sc.Cover("mark-kept")
		}
		sc.Stat("own_checks_while_marked", checks)
		sc.Coverf("fam=%s|rel=%s|repl=%s|ro=%v|resetup=%v|stuck=%v|second=%v|tool=%v|cleared=%v|file=%v", sp.Family, sp.Relation, sp.Repl, sp.RO, sp.Resetup, sp.Stuck, sp.Second, sp.Tool, cleared, fileSeen)
		sc.Obs("family %s, host %s relation %s replication %s read-only %v resetup file %v stuck %v: own checks while marked %d, cleared=%v, still marked=%v, resetup file appeared=%v, active %v", sp.Family, h, sp.Relation, sp.Repl, sp.RO, sp.Resetup, sp.Stuck, checks, cleared, stillMarked, fileSeen, s.ActiveNodes())
	})
}

func init() {
	register(&Prop{ID: "C11", Units: func(tier string) int { return tierN(tier, 320, 8000) }, Run: c11Run,
		Floor: func(string) []string {
			return []string{"marked-by:daemon", "marked-by:operator", "cleared-by-own-daemon", "mark-kept", "resetup-file-written", "stale-master-marked", "old-master-marked-by-failover", "switch-to-marked-host-filed"}
		},
		Rule: "families: (lifecycle) a marked host shaped by relation of its transaction set to the master's {behind, equal, ahead, diverged} x replication {running, stopped, error, none} x read-only x resetup file present x stuck semi-sync commits x a switch request naming it x resetup tool; (stale_master) a replica loses its replication configuration, in a third of the shapes after it had been away long enough to be evicted from the list; (failover_return) the master dies, is failed over and returns clean or with unreplicated transactions; every deletion of a mark is judged on ground truth at that instant, every list write and promotion against the marks, and a host that checks itself while dirty must produce its resetup file; distinct by the cover tuple"})
}
