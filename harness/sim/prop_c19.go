package sim

import (
	"fmt"
	"math/rand"
	"strings"
	"sync"
	"sync/atomic"
	"time"

	"github.com/yandex/mysync/internal/config"
	"github.com/yandex/mysync/verif/fakezk"
	"github.com/yandex/mysync/verif/world"
)

// C19 — replication optimisation never leaves untracked relaxed durability.

type c19Spec struct {
	N         int        `json:"n_ha"`
	Lags      []*float64 `json:"replica_lag"`
	Reg       []string   `json:"registry"` // per replica: none new enabled
	PreRelax  []bool     `json:"relaxed_by_operator"`
	Ghost     bool       `json:"unregistered_host_in_registry"`
	FailEach  int        `json:"fail_every_nth_settings_statement"`
	Event     string     `json:"event"` // steady converge diverge operator_enable operator_disable switch_to_lagging switch_from offline_by_lag register_just_above_high
	Stopped   int        `json:"replica_with_stopped_replication"`
	NoSemi    bool       `json:"semi_sync_off"`                                // the pre-switchover turbo phase exists only with semi-sync; without it the switchover itself must switch optimisation off
	SlowTurbo bool       `json:"target_answers_slowly_during_the_turbo_phase"` // the first two settings statements reaching the target after the turbo phase registered it take 4 s each
	TwoLeave  bool       `json:"two_relaxed_registered_hosts_leave_in_one_pass_first_restore_fails"`
	LeaveWait bool       `json:"relaxed_host_leaves_while_another_waits_and_its_restore_fails_once"`
	Subject   int        `json:"subject_replica"` // register_just_above_high: which replica (the daemons start 0.7 s apart, so this varies the phase between its health checks and the manager's ticks)
}

var c19Events = []string{"steady", "converge", "diverge", "operator_enable", "operator_disable", "switch_to_lagging", "switch_from", "offline_by_lag", "register_just_above_high"}

const (
	c19High = 120.0
	c19Low  = 60.0
)

func c19Gen(seed int64, idx int) c19Spec {
	r := rand.New(rand.NewSource(seed))
	lags := []*float64{fp(10), fp(59), fp(60), fp(119), fp(120), fp(121), fp(500), nil}
	sp := c19Spec{N: 3 + r.Intn(3), Event: c19Events[idx%len(c19Events)], Ghost: r.Intn(5) == 0, Stopped: -1}
	for i := 1; i < sp.N; i++ {
		sp.Lags = append(sp.Lags, lags[r.Intn(len(lags))])
		sp.Reg = append(sp.Reg, []string{"none", "none", "new", "enabled"}[r.Intn(4)])
		sp.PreRelax = append(sp.PreRelax, r.Intn(6) == 0)
	}
	if r.Intn(4) == 0 {
		sp.Stopped = r.Intn(sp.N - 1)
	}
	if r.Intn(3) == 0 {
		sp.FailEach = 2 + r.Intn(5)
	}
	sp.NoSemi = r.Intn(3) == 0
	if sp.Event == "switch_to_lagging" || sp.Event == "switch_from" {
		sp.NoSemi = (idx/len(c19Events))%2 == 0
	}
	if sp.Event == "switch_to_lagging" && !sp.NoSemi && (idx/(2*len(c19Events)))%2 == 0 {
		sp.SlowTurbo = true
		sp.Reg[0], sp.PreRelax[0], sp.FailEach = "none", false, 0
		if sp.Stopped == 0 {
			sp.Stopped = -1
		}
	}
	if sp.Event == "converge" && (idx/len(c19Events))%2 == 0 {
		// two registered hosts, both relaxed by an earlier manager and both converged, leave the registry in the same
		// pass, and the first restore statement of that pass fails
		sp.TwoLeave, sp.FailEach, sp.Stopped = true, 0, -1
		sp.Reg[0], sp.Reg[1] = "enabled", "enabled"
		sp.Lags[0], sp.Lags[1] = fp(10), fp(10)
		sp.PreRelax[0], sp.PreRelax[1] = false, false
	}
	if sp.Event == "converge" && (idx/len(c19Events))%2 == 1 {
		// the one relaxed host has converged and leaves while a second registered host still waits for its turn, and the
		// restore of the leaving one fails once: the waiting host must not be relaxed before the leaving one is restored
		sp.LeaveWait, sp.FailEach, sp.Stopped, sp.Ghost = true, 0, -1, false
		for i := range sp.Reg {
			sp.Reg[i], sp.PreRelax[i] = "none", false
		}
		sp.Reg[0], sp.Reg[1] = "enabled", "new"
		sp.Lags[0], sp.Lags[1] = fp(10), fp(500)
	}
	if sp.Event == "register_just_above_high" {
		// the first replica is clean, unregistered and not lagging until the event; no failing statements
		sp.Subject = r.Intn(sp.N - 1)
		sp.Lags[sp.Subject], sp.Reg[sp.Subject], sp.PreRelax[sp.Subject], sp.FailEach = fp(10), "none", false, 0
		if sp.Stopped == sp.Subject {
			sp.Stopped = -1
		}
	}
	return sp
}

func relaxedByMysync(x, ms *world.Server) bool {
	// a variable counts only if its current, looser-than-the-master value was written by a mysync instance
	sb := x.SyncBinlog > ms.SyncBinlog && strings.HasPrefix(x.SyncBinlogWriter, "mysync_")
	fl := x.FlushLog != ms.FlushLog && x.FlushLog != 1 && strings.HasPrefix(x.FlushLogWriter, "mysync_")
	return sb || fl
}

func c19Run(u *Unit) {
	sp := c19Gen(u.Seed, u.Idx)
	hosts := append([]string(nil), haNames[:sp.N]...)
	master := hosts[0]
	opts := Opts{HA: hosts, Seed: u.Seed, Workload: true, WorkloadOnly: []string{master}, PreConverged: true,
		Cfg: func(h string, c *config.Config) {
			c.SemiSync = !sp.NoSemi
			c.OptimizationConfig.HighReplicationMark = time.Duration(c19High) * time.Second
			c.OptimizationConfig.LowReplicationMark = time.Duration(c19Low) * time.Second
			c.OfflineModeEnableLag = 400 * time.Second
			c.OfflineModeDisableLag = 30 * time.Second
			c.Failover = false
			c.InactivationDelay = 3600 * time.Second
			c.ReplicationConvergenceTimeoutSwitchover = 30 * time.Second
			c.SlaveCatchUpTimeout = 30 * time.Second
		}}
	u.Scenario(fmt.Sprintf("c19-%d-%s", u.Idx, sp.Event), sp, opts, func(sc *Scen) {
		s := sc.S
		w := s.W
		registered := map[string]bool{}
		for _, h := range hosts {
			registered[h] = true
		}
		w.Lock()
		for i := range sp.Lags {
			x := w.Servers[hosts[i+1]]
			x.Lag = sp.Lags[i]
			if sp.PreRelax[i] {
				x.SyncBinlog, x.FlushLog = 1000, 2
			}
			if i == sp.Stopped {
				x.IORun, x.SQLRun = false, false
			}
			if sp.LeaveWait && i == 0 {
				x.SyncBinlog, x.FlushLog = 1000, 2
				x.SyncBinlogWriter, x.FlushLogWriter, x.SettingsWriter = "mysync_"+hosts[0], "mysync_"+hosts[0], "mysync_"+hosts[0]
			}
			if sp.TwoLeave && i < 2 {
				x.SyncBinlog, x.FlushLog = 1000, 2
				x.SyncBinlogWriter, x.FlushLogWriter, x.SettingsWriter = "mysync_"+hosts[0], "mysync_"+hosts[0], "mysync_"+hosts[0]
			}
		}
		var firstRestore, restoredOnce atomic.Bool
		var leaveFails atomic.Int32
		var fmu sync.Mutex
		nset := 0
		var turboArmed atomic.Int32
		if sp.SlowTurbo {
			s.OnZK(func(r fakezk.Rec) {
				if r.Op == "create" && r.Path == NS+"/optimization_nodes/"+hosts[1] && isDaemon(s, r.Client) {
					if _, pend := s.Cached("switch"); pend && turboArmed.CompareAndSwap(0, 1) {
						sc.Cover("turbo-phase-with-slow-target")
					}
				}
			})
		}
		w.Fault = func(c *world.StmtCtx) world.FaultAction {
			if sp.LeaveWait && c.Host == hosts[1] && (c.Class == "set_sync_binlog" || c.Class == "set_flush") && strings.HasPrefix(c.Caller, "mysync_") && leaveFails.Add(1) <= 3 {
				// (the first three passes: in the very first one the lag of the waiting host is not known yet)
				sc.Cover("restore-of-the-leaving-host-failed-while-another-waits")
				return world.FaultAction{Kind: "fail", Errno: 1105}
			}
			if sp.TwoLeave && (c.Class == "set_sync_binlog" || c.Class == "set_flush") && strings.HasPrefix(c.Caller, "mysync_") && firstRestore.CompareAndSwap(false, true) {
				sc.Cover("first-restore-of-a-batch-failed")
				return world.FaultAction{Kind: "fail", Errno: 1105}
			}
			if sp.SlowTurbo && c.Host == hosts[1] && (c.Class == "set_sync_binlog" || c.Class == "set_flush") && strings.HasPrefix(c.Caller, "mysync_") {
				if n := turboArmed.Load(); n >= 1 && n <= 2 && turboArmed.CompareAndSwap(n, n+1) {
					return world.FaultAction{Kind: "slow", Delay: 4 * time.Second}
				}
			}
			if sp.Event == "register_just_above_high" && c.Class != "conn_init" && strings.HasPrefix(c.Caller, "mysync_") && c.Caller != "mysync_"+c.Host {
				// a slow manager: every statement it sends to another host takes 50-200 ms, an iteration takes seconds, and
				// the health records it read at the start are stale by the time it acts on them
				return world.FaultAction{Kind: "delay", Delay: time.Duration(50*(1+u.Idx%4)) * time.Millisecond}
			}
			if sp.FailEach > 0 && (c.Class == "set_sync_binlog" || c.Class == "set_flush") {
				fmu.Lock()
				nset++
				n := nset
				fmu.Unlock()
				if n%sp.FailEach == 0 && n < 40 {
					return world.FaultAction{Kind: "fail", Errno: 1105}
				}
			}
			return world.FaultAction{}
		}
		w.Unlock()
		s.ZK.Put("setup", NS+"/optimization_nodes", `""`)
		for i, rg := range sp.Reg {
			switch rg {
			case "new":
				s.ZK.Put("operator", NS+"/optimization_nodes/"+hosts[i+1], `{"status":""}`)
			case "enabled":
				s.ZK.Put("operator", NS+"/optimization_nodes/"+hosts[i+1], `{"status":"enabled"}`)
			}
		}
		if sp.Ghost {
			s.ZK.Put("operator", NS+"/optimization_nodes/ghost-db0", `{"status":"enabled"}`)
		}
		var mu sync.Mutex
		syncs, drops, promos := 0, 0, 0
		iterBeg := map[string]bool{}
		s.OnIter(func(inst, state, next string, begin bool) {
			if state != "Manager" {
				return
			}
			_, sw := s.Cached("switch")
			mu.Lock()
			if begin {
				iterBeg[inst] = sw
				mu.Unlock()
				return
			}
			swBeg := iterBeg[inst]
			delete(iterBeg, inst)
			mu.Unlock()
			if sw || swBeg || next != "Manager" || sp.FailEach > 0 {
				return
			}
			if sp.TwoLeave && !restoredOnce.Load() {
				return // the hostile initial state (two hosts relaxed) lasts until a pass got its restore statements through
			}
			w.Lock()
			defer w.Unlock()
			ms := w.Servers[s.CachedMaster()]
			if ms == nil || !ms.Up {
				return
			}
			// the master itself never carries settings relaxed by mysync (nothing tracks, and nothing would ever restore, them)
			if (ms.SyncBinlog > 1 && strings.HasPrefix(ms.SyncBinlogWriter, "mysync_")) || (ms.FlushLog != 1 && strings.HasPrefix(ms.FlushLogWriter, "mysync_")) {
				sc.Violate("C19", "master-carries-relaxed-settings", fmt.Sprintf("after a completed manager iteration of %s the master %s runs with sync_binlog=%d (written by %s) innodb_flush_log_at_trx_commit=%d (written by %s)", inst, ms.Host, ms.SyncBinlog, ms.SyncBinlogWriter, ms.FlushLog, ms.FlushLogWriter), w.DescribeLocked())
			}
			var relaxed, untracked []string
			for _, h := range hosts {
				x := w.Servers[h]
				if h == ms.Host || !x.Up {
					continue
				}
				if relaxedByMysync(x, ms) {
					relaxed = append(relaxed, h)
					if _, tr := s.Cached("optimization_nodes/" + h); !tr {
						untracked = append(untracked, h)
					}
				}
			}
			mu.Lock()
			syncs++
			mu.Unlock()
			if len(relaxed) > 1 {
				sc.Violate("C19", "several-replicas-relaxed-after-sync", fmt.Sprintf("after a completed manager iteration of %s the replicas %v run with relaxed durability under mysync's control", inst, relaxed), w.DescribeLocked())
			}
			if len(untracked) > 0 {
				sc.Violate("C19", "relaxed-replica-not-tracked", fmt.Sprintf("after a completed manager iteration of %s the replicas %v carry mysync's relaxed settings without an optimization_nodes entry", inst, untracked), w.DescribeLocked())
			}
			if len(relaxed) == 1 {
				sc.Cover("one-replica-optimizing")
			}
		})
		s.OnZK(func(r fakezk.Rec) {
			p := strings.TrimPrefix(r.Path, NS+"/")
			if !strings.HasPrefix(p, "optimization_nodes/") || r.Op != "delete" || !isDaemon(s, r.Client) {
				return
			}
			h := strings.TrimPrefix(p, "optimization_nodes/")
			w.Lock()
			defer w.Unlock()
			mu.Lock()
			drops++
			mu.Unlock()
			restoredOnce.Store(true)
			sc.Cover("registry-drop")
			x, ms := w.Servers[h], w.Servers[s.CachedMaster()]
			if x == nil || !registered[h] {
				sc.Cover("drop-of-unregistered-host")
				return
			}
			if ms != nil && (x.SyncBinlog != ms.SyncBinlog || x.FlushLog != ms.FlushLog) {
				sc.Violate("C19", "registry-entry-dropped-before-restore", fmt.Sprintf("%s removed optimization_nodes/%s while %s runs with sync_binlog=%d innodb_flush_log_at_trx_commit=%d (master %d/%d, last written by %q)", r.Client, h, h, x.SyncBinlog, x.FlushLog, ms.SyncBinlog, ms.FlushLog, x.SettingsWriter), w.DescribeLocked())
			}
		})
		w.Lock()
		frozeAttempt := map[string]bool{}
		w.BeforeStmt = append(w.BeforeStmt, func(w *world.World, c *world.StmtCtx) {
			if !strings.HasPrefix(c.Caller, "mysync_") {
				return
			}
			inst := instOfCaller(c.Caller)
			_, sw := s.Cached("switch")
			ms := w.Servers[s.CachedMaster()]
			switch c.Class {
			case "set_ro":
				if sw && !frozeAttempt[inst] && ms != nil {
					frozeAttempt[inst] = true
					for _, h := range s.ActiveNodesCached() {
						if x := w.Servers[h]; x != nil && h != ms.Host && relaxedByMysync(x, ms) {
							sc.Violate("C19", "freeze-begins-with-relaxed-member", fmt.Sprintf("%s begins to freeze the list members while %s still carries mysync's relaxed settings (%d/%d)", inst, h, x.SyncBinlog, x.FlushLog))
						}
					}
				}
			case "set_writable":
				if ms == nil || c.Host == ms.Host {
					return
				}
				x := w.Servers[c.Host]
				mu.Lock()
				promos++
				mu.Unlock()
				sc.Cover("promotion")
				safe := x.SyncBinlog == 1 && x.FlushLog == 1
				same := x.SyncBinlog == ms.SyncBinlog && x.FlushLog == ms.FlushLog
				if !safe && !same && relaxedByMysync(x, ms) {
					sc.Violate("C19", "promoted-with-relaxed-settings", fmt.Sprintf("%s promotes %s which runs with sync_binlog=%d innodb_flush_log_at_trx_commit=%d written by %s (old master %d/%d)", inst, c.Host, x.SyncBinlog, x.FlushLog, x.SettingsWriter, ms.SyncBinlog, ms.FlushLog))
				}
				if _, tr := s.Cached("optimization_nodes/" + c.Host); tr {
					sc.Violate("C19", "promoted-while-registered-as-optimizing", fmt.Sprintf("%s promotes %s while optimization_nodes/%s exists", inst, c.Host, c.Host))
				}
				delete(frozeAttempt, inst)
			}
		})
		w.Unlock()
		s.Start()
		time.Sleep(40 * time.Second)
		setLag := func(i int, v *float64) { w.Manual(hosts[i+1], "lag", func(x *world.Server) { x.Lag = v }) }
		switch sp.Event {
		case "converge":
			for i := range sp.Lags {
				if sp.LeaveWait && i == 1 {
					continue // the waiting host keeps lagging
				}
				setLag(i, fp(5))
			}
		case "diverge":
			setLag(0, fp(600))
			if sp.N > 2 {
				setLag(1, fp(700))
			}
		case "operator_enable":
			for _, h := range hosts[1:] {
				s.ZK.Put("operator", NS+"/optimization_nodes/"+h, `{"status":"enabled"}`)
			}
		case "operator_disable":
			// what `mysync optimize --disable-all` does: restore the master's settings, then deregister
			for _, h := range hosts[1:] {
				w.Manual(h, "operator restores durability settings", func(x *world.Server) {
					ms := w.Servers[master]
					x.SyncBinlog, x.FlushLog, x.SettingsWriter, x.SyncBinlogWriter, x.FlushLogWriter = ms.SyncBinlog, ms.FlushLog, "operator", "operator", "operator"
				})
				s.ZK.Remove("operator", NS+"/optimization_nodes/"+h)
			}
		case "switch_to_lagging":
			setLag(0, fp(200))
			time.Sleep(12 * time.Second)
			fileSwitch(sc, "", hosts[1], "manual", "switchover", "operator")
		case "switch_from":
			fileSwitch(sc, master, "", "manual", "switchover", "operator")
		case "offline_by_lag":
			setLag(0, fp(900)) // above offline_mode_enable_lag: taken offline and registered
		case "register_just_above_high":
			// a replica is registered while its lag is just above the high mark and falling: optimisation starts, and
			// within one health-check interval the lag is below the mark again, while the newest health record may still
			// show the settings from before the start
			// repeated with varying phases between the replica's health checks and the manager's ticks
			h := hosts[sp.Subject+1]
			for cycle := 0; cycle < 10; cycle++ {
				time.Sleep(time.Duration(s.Rng.Intn(5000)) * time.Millisecond)
				setLag(sp.Subject, fp(122))
				time.Sleep(5200 * time.Millisecond) // one health-check interval: every record shows the lag above the mark
				t0 := time.Now()
				s.ZK.Put("operator", NS+"/optimization_nodes/"+h, `{"status":""}`)
				for i := 0; i < 120; i++ {
					time.Sleep(250 * time.Millisecond)
					v := 122 - 1.2*time.Since(t0).Seconds()
					if v < 100 {
						v = 100
					}
					setLag(sp.Subject, fp(v))
					if _, tr := s.Cached("optimization_nodes/" + h); !tr && i > 8 {
						break
					}
				}
				setLag(sp.Subject, fp(10))
			}
			sc.Cover("registered-just-above-the-high-mark")
		}
		time.Sleep(70 * time.Second)
		// a host whose lag is unknown or converged is restored and dropped (bounded: many iterations have passed)
		if sp.FailEach == 0 && (sp.Event == "steady" || sp.Event == "converge") {
			w.Lock()
			ms := w.Servers[s.CachedMaster()]
			for i := range sp.Lags {
				h := hosts[i+1]
				x := w.Servers[h]
				lagKnown := x.IORun && x.SQLRun
				lag := 0.0
				if x.Lag != nil {
					lag = *x.Lag
				}
				_, tr := s.Cached("optimization_nodes/" + h)
				if (!lagKnown || lag < c19Low) && ms != nil {
					if tr {
						sc.Violate("C19", "converged-host-still-registered", fmt.Sprintf("%s (lag known=%v, %v s) is still in the optimisation registry after more than ten manager iterations", h, lagKnown, lag))
					}
					if relaxedByMysync(x, ms) {
						sc.Violate("C19", "converged-host-still-relaxed", fmt.Sprintf("%s (lag known=%v, %v s) still carries mysync's relaxed settings %d/%d", h, lagKnown, lag, x.SyncBinlog, x.FlushLog))
					}
					sc.Cover("converged-or-unknown-lag-host")
				}
			}
			w.Unlock()
		}
		mu.Lock()
		sy, dr, pr := syncs, drops, promos
		mu.Unlock()
		sc.Stat("iterations_judged_after_sync", sy)
		sc.Stat("registry_drops", dr)
		sc.Coverf("opt|event=%s|n=%d|reg=%v|ghost=%v|fail=%d|drops=%d|promos=%d|semi=%v", sp.Event, sp.N, sp.Reg, sp.Ghost, sp.FailEach, min(dr, 3), pr, !sp.NoSemi)
		sc.Obs("event %s, lags %s, registry %v, operator-relaxed %v, ghost %v, failing every %d-th settings statement: %d iterations judged after their sync, %d registry drops, %d promotions", sp.Event, lagStr(sp.Lags), sp.Reg, sp.PreRelax, sp.Ghost, sp.FailEach, sy, dr, pr)
	})
}

func lagStr(l []*float64) string {
	var p []string
	for _, v := range l {
		if v == nil {
			p = append(p, "0")
		} else {
			p = append(p, fmt.Sprint(*v))
		}
	}
	return "[" + strings.Join(p, " ") + "]"
}

func init() {
	register(&Prop{ID: "C19", Units: func(tier string) int { return tierN(tier, 270, 6300) }, Run: c19Run,
		Floor: func(string) []string {
			return []string{"one-replica-optimizing", "registry-drop", "drop-of-unregistered-host", "promotion", "converged-or-unknown-lag-host", "registered-just-above-the-high-mark", "turbo-phase-with-slow-target", "first-restore-of-a-batch-failed", "restore-of-the-leaving-host-failed-while-another-waits"}
		},
		Rule: "scenario = 3-5 node cluster (semi-sync off in a third) with per-replica lag around both marks {10,59,60,119,120,121,500}, a replica with stopped replication (unknown lag), initial registry entries (none / new / enabled, plus an unregistered host), settings already relaxed by the operator, every k-th settings statement failing, and an event (steady, lags converge, lags diverge, operator enables all, operator disables all, planned switchover to a lagging target, switchover from the master, replica taken offline by lag, replica registered while its falling lag is just above the high mark under a slow manager whose health-record reads are stale when it acts); oracles on ground truth: after every completed manager iteration that ran its sync at most one replica carries relaxed settings last written by mysync and none untracked, every registry drop by a daemon finds the host's settings equal to the master's (or the host unregistered), promotions find the target unrelaxed and unregistered, a freeze begins with no relaxed member, converged / unknown-lag hosts end restored and dropped; distinct by the cover tuple"})
}
