package sim

import (
	"encoding/json"
	"fmt"
	"math/rand"
	"strings"
	"sync"
	"time"

	"github.com/yandex/mysync/internal/config"
	"github.com/yandex/mysync/verif/fakezk"
	"github.com/yandex/mysync/verif/world"
)

// C06 — every switch request reaches exactly one terminal outcome, in bounded time: a lifecycle
// automaton over the writes of switch / last_switch / last_rejected_switch in linearization order.

type swRec struct {
	From        string    `json:"from"`
	To          string    `json:"to"`
	Cause       string    `json:"cause"`
	InitiatedBy string    `json:"initiated_by"`
	InitiatedAt time.Time `json:"initiated_at"`
	Transition  string    `json:"master_transition"`
	StartedBy   string    `json:"started_by"`
	StartedAt   time.Time `json:"started_at"`
	RunCount    int       `json:"run_count"`
	Result      *struct {
		Ok    bool   `json:"ok"`
		Error string `json:"error"`
	} `json:"result"`
}

func (r swRec) id() string { return r.InitiatedBy + "@" + r.InitiatedAt.Format(time.RFC3339Nano) }

type c06Req struct {
	id         string
	rec        swRec
	filedAt    time.Duration
	terminal   string // "", succeeded, rejected, aborted
	termAt     time.Duration
	limitAt    time.Duration // when run_count reached the attempt limit (0 = not yet)
	startedBy  string        // instance that wrote the last start record and has not yet written bookkeeping
	startedT   time.Duration // when that start record was written
	deletedBy  string
	deletedAt  time.Duration
	counted    int
	lastFailed int
}

type c06Monitor struct {
	mu       sync.Mutex
	sc       *Scen
	limit    int
	timeout  time.Duration
	cur      *c06Req
	all      map[string]*c06Req
	iterBeg  map[string]time.Duration
	lastEnd  time.Duration            // end of the last completed iteration of any daemon in the Manager state
	lastLock map[string]string        // instance -> last answer about the manager lock
	dcsErr   map[string]time.Duration // instance -> time of its last failed coordination-service call
	Terminal map[string]int
}

func isDaemon(s *Sim, client string) bool { return s.InstByName(client) != nil }

func newC06Monitor(sc *Scen, limit int, timeout time.Duration) *c06Monitor {
	m := &c06Monitor{sc: sc, limit: limit, timeout: timeout, all: map[string]*c06Req{}, iterBeg: map[string]time.Duration{}, Terminal: map[string]int{},
		lastLock: map[string]string{}, dcsErr: map[string]time.Duration{}}
	s := sc.S
	s.OnDCS(func(inst, method, path, arg, res string) {
		m.mu.Lock()
		defer m.mu.Unlock()
		if method == "AcquireLock" {
			m.lastLock[inst] = res
		}
		if strings.HasPrefix(res, "error") {
			m.dcsErr[inst] = s.W.Now()
		}
	})
	s.OnZK(func(r fakezk.Rec) {
		p := strings.TrimPrefix(r.Path, NS+"/")
		if p != "switch" && p != "last_switch" && p != "last_rejected_switch" {
			return
		}
		s.W.Lock()
		m.mu.Lock()
		m.onWrite(s.W, p, r)
		m.mu.Unlock()
		s.W.Unlock()
	})
	s.OnIter(func(inst, state, next string, begin bool) {
		if state != "Manager" {
			return
		}
		m.mu.Lock()
		defer m.mu.Unlock()
		now := s.W.Now()
		if begin {
			m.iterBeg[inst] = now
			return
		}
		beg, ok := m.iterBeg[inst]
		delete(m.iterBeg, inst)
		if ok {
			m.lastEnd = s.W.Now()
		}
		// every attempt a manager starts ends in bookkeeping by that manager - the failure counted, or the outcome
		// recorded - unless the request was aborted meanwhile, the manager lost the lock, or it could not reach the
		// coordination service
		if q := m.cur; ok && q != nil && q.terminal == "" && q.deletedBy == "" && q.startedBy == inst && q.startedT >= beg {
			if e, bad := m.dcsErr[inst]; m.lastLock[inst] == "true" && !(bad && e >= beg) {
				m.sc.Violate("C06", "attempt-ended-without-record", fmt.Sprintf("%s started an attempt of request %s at %.1fs (run_count %d) and completed the iteration holding the lock without counting a failure or recording an outcome; the request is still pending",
					inst, q.id, q.startedT.Seconds(), q.rec.RunCount))
			}
			q.startedBy = ""
		}
		if !ok || next != "Manager" || m.cur == nil || m.cur.terminal != "" {
			return
		}
		if mt, has := s.Cached("maintenance"); has {
			if !strings.Contains(mt, `"mode":"light"`) || m.cur.rec.Transition == "failover" {
				return // full maintenance pauses everything; light maintenance parks failover-type requests
			}
		}
		q := m.cur
		if q.limitAt > 0 && beg > q.limitAt {
			m.sc.Violate("C06", "pending-past-attempt-limit", fmt.Sprintf("request %s (run_count %d, limit %d) is still pending at the end of a completed manager iteration of %s that began at %.1fs, after the limit was reached at %.1fs",
				q.id, q.rec.RunCount, m.limit, inst, beg.Seconds(), q.limitAt.Seconds()))
		}
		if !q.rec.InitiatedAt.IsZero() {
			deadline := q.rec.InitiatedAt.Sub(s.W.T0) + m.timeout
			if beg > deadline {
				m.sc.Violate("C06", "pending-past-switchover-timeout:"+q.rec.Transition, fmt.Sprintf("request %s (%s, run_count %d) is still pending at the end of a completed manager iteration of %s that began at %.1fs, after initiated_at+timeout = %.1fs",
					q.id, q.rec.Transition, q.rec.RunCount, inst, beg.Seconds(), deadline.Seconds()))
			}
		}
	})
	s.W.Lock()
	s.W.AfterStmt = append(s.W.AfterStmt, func(w *world.World, c *world.StmtCtx) {
		if !c.Mut {
			return
		}
		m.mu.Lock()
		defer m.mu.Unlock()
		inst := instOfCaller(c.Caller)
		if q := m.cur; q != nil && q.terminal == "" && q.startedBy != "" && q.startedBy != inst && isPromotionClass(c.Class) {
			if _, mgrIter := m.iterBeg[inst]; mgrIter {
				m.sc.Violate("C06", "two-managers-on-one-request", fmt.Sprintf("%s sent %s to %s while %s had started request %s and not yet recorded its outcome", inst, c.Class, c.Host, q.startedBy, q.id))
			}
		}
	})
	s.W.Unlock()
	return m
}

// onWrite runs under the fake ZooKeeper's, the world's and the monitor's mutex.
func (m *c06Monitor) onWrite(w *world.World, key string, r fakezk.Rec) {
	now := w.Now()
	s := m.sc.S
	var rec swRec
	if r.Op == "create" || r.Op == "set" {
		if err := json.Unmarshal([]byte(r.Data), &rec); err != nil {
			return
		}
	}
	switch key {
	case "switch":
		switch r.Op {
		case "create", "set":
			id := rec.id()
			if q, ok := m.all[id]; ok && q.terminal != "" {
				m.sc.Violate("C06", "request-resurrected-after-"+q.terminal+":by="+map[bool]string{true: "daemon", false: "external"}[isDaemon(s, r.Client)],
					fmt.Sprintf("request %s reached the outcome %q at %.1fs and is written to the switch key again by %s at %.1fs (run_count %d)", id, q.terminal, q.termAt.Seconds(), r.Client, now.Seconds(), rec.RunCount))
				q.terminal = "" // follow it further
				m.cur = q
			}
			if m.cur != nil && m.cur.terminal == "" && m.cur.id != id {
				if isDaemon(s, r.Client) {
					m.sc.Violate("C06", "filed-over-pending-request", fmt.Sprintf("%s wrote request %s over the pending request %s", r.Client, id, m.cur.id))
				}
				// an external tool overwriting the key replaces the request (outside mysync's control)
				m.cur.terminal, m.cur.termAt = "overwritten-externally", now
				m.cur = nil
			}
			if m.cur == nil || m.cur.id != id {
				q := &c06Req{id: id, rec: rec, filedAt: now}
				m.all[id] = q
				m.cur = q
				m.sc.Cover("filed-by:" + map[bool]string{true: "daemon", false: "external"}[isDaemon(s, r.Client)])
				return
			}
			q := m.cur
			prev := q.rec
			q.rec = rec
			switch {
			case !rec.StartedAt.Equal(prev.StartedAt) && rec.StartedBy != "":
				q.startedBy, q.startedT = r.Client, now
				m.sc.Cover("started")
			case rec.Result != nil && !rec.Result.Ok:
				// a failed attempt is counted exactly once
				if rec.RunCount != prev.RunCount+1 {
					m.sc.Violate("C06", "failed-attempt-not-counted", fmt.Sprintf("%s recorded a failed attempt of %s with run_count %d after %d", r.Client, id, rec.RunCount, prev.RunCount))
				}
				q.startedBy = ""
				m.sc.Cover("attempt-failed")
				if rec.Transition != "failover" && m.limit > 0 && rec.RunCount >= m.limit && q.limitAt == 0 {
					q.limitAt = now
					m.sc.Cover("attempt-limit-reached")
				}
			}
		case "delete":
			if m.cur == nil || m.cur.terminal != "" {
				return
			}
			q := m.cur
			q.deletedBy, q.deletedAt = r.Client, now
			if !isDaemon(s, r.Client) {
				q.terminal, q.termAt = "aborted", now
				m.Terminal["aborted"]++
				m.sc.Cover("terminal:aborted")
			}
		}
	case "last_switch", "last_rejected_switch":
		if r.Op != "create" && r.Op != "set" {
			return
		}
		id := rec.id()
		q := m.all[id]
		if q == nil {
			return
		}
		out := "succeeded"
		if key == "last_rejected_switch" {
			out = "rejected"
		}
		if q.terminal != "" && q.terminal != out {
			m.sc.Violate("C06", "second-outcome:"+q.terminal+"-then-"+out, fmt.Sprintf("request %s already had the outcome %q (at %.1fs) and is now recorded as %s by %s", id, q.terminal, q.termAt.Seconds(), out, r.Client))
		}
		if q.terminal == "" && q.deletedBy == "" {
			m.sc.Violate("C06", "outcome-recorded-while-pending", fmt.Sprintf("%s recorded request %s as %s while the switch key still holds it", r.Client, id, out))
		}
		q.terminal, q.termAt = out, now
		m.Terminal[out]++
		m.sc.Cover("terminal:" + out)
		if out == "rejected" && rec.Result != nil && rec.RunCount > 0 &&
			(strings.Contains(rec.Result.Error, "no quorum") || strings.Contains(rec.Result.Error, "no alive active replica")) {
			m.sc.Violate("C06", "approved-request-rejudged", fmt.Sprintf("request %s had %d counted attempts and is rejected by the approval step: %q", id, rec.RunCount, rec.Result.Error))
		}
		if out == "succeeded" {
			master := s.CachedMaster()
			ms := w.Servers[master]
			switch {
			case ms == nil || !ms.Up || ms.ReadOnly:
				m.sc.Violate("C06", "success-recorded-master-not-writable", fmt.Sprintf("request %s is recorded as succeeded while the recorded master %q is not writable", id, master), w.DescribeLocked())
			case rec.To != "" && rec.To != master:
				m.sc.Violate("C06", "success-recorded-master-is-not-target", fmt.Sprintf("request %s (to %s) is recorded as succeeded while the recorded master is %q", id, rec.To, master))
			case rec.From != "" && rec.From == master:
				m.sc.Violate("C06", "success-recorded-master-is-from-host", fmt.Sprintf("request %s (from %s) is recorded as succeeded while the recorded master is still %q", id, rec.From, master))
			}
		}
	}
}

type c06Spec struct {
	N        int    `json:"n_ha"`
	Kind     string `json:"request"`   // to from failover_manual auto worker_sloppy
	Init     string `json:"initiator"` // cli worker auto
	Limit    int    `json:"max_attempts"`
	TimeoutS int    `json:"timeout_s"`
	FailK    int    `json:"failing_attempts"` // -1 = forever
	FailAt   string `json:"fail_at"`
	Abort    string `json:"abort"` // none, timed, after_manager_read
	AbortOcc int    `json:"abort_after_read_no"`
	Second   bool   `json:"second_initiator"`
	LightMnt bool   `json:"light_maintenance"`
	Raced    bool   `json:"operator_request_lands_during_the_approval_of_the_automatic_one"`
}

var c06Kinds = []string{"to", "from", "failover_manual", "auto", "worker_sloppy"}
var c06FailAt = []string{"stop_io", "change_source", "set_ro_replica", "catchup", "set_writable", "reset_replica"}

func c06Gen(seed int64, idx int) c06Spec {
	r := rand.New(rand.NewSource(seed))
	sp := c06Spec{N: 2 + r.Intn(3), Kind: c06Kinds[idx%len(c06Kinds)]}
	sp.Limit = []int{1, 3, 60, 0}[r.Intn(4)]
	sp.TimeoutS = []int{120, 1800}[r.Intn(2)]
	sp.FailK = []int{0, 1, 2, 4, -1, -1}[r.Intn(6)]
	sp.FailAt = c06FailAt[r.Intn(len(c06FailAt))]
	switch (idx / len(c06Kinds)) % 4 {
	case 1:
		sp.Abort = "timed"
	case 2:
		sp.Abort, sp.AbortOcc = "after_manager_read", 1+r.Intn(6)
	default:
		sp.Abort = "none"
	}
	sp.Second = r.Intn(3) == 0
	sp.LightMnt = r.Intn(8) == 0
	sp.Raced = sp.Kind == "auto" && (idx/len(c06Kinds))%2 == 0
	return sp
}

func c06Run(u *Unit) {
	sp := c06Gen(u.Seed, u.Idx)
	hosts := append([]string(nil), haNames[:sp.N]...)
	target := hosts[1]
	opts := Opts{HA: hosts, Seed: u.Seed, Workload: true, PreConverged: true, FirstDaemon: hosts[len(hosts)-1],
		Cfg: func(h string, c *config.Config) {
			c.SwitchoverMaxAttempts = sp.Limit
			c.SwitchoverTimeout = time.Duration(sp.TimeoutS) * time.Second
			c.SlaveCatchUpTimeout = 15 * time.Second
			c.FailoverDelay = 5 * time.Second
		}}
	u.Scenario(fmt.Sprintf("c06-%d-%s-%s", u.Idx, sp.Kind, sp.Abort), sp, opts, func(sc *Scen) {
		s := sc.S
		mon := newC06Monitor(sc, sp.Limit, time.Duration(sp.TimeoutS)*time.Second)
		if sp.Raced {
			// the operator's request is created between the manager's look at the switch key and its own filing (the
			// cool-down read of the approval comes in between): the automatic one must be refused, not written over it
			var once sync.Once
			s.OnDCS(func(inst, method, path, arg, res string) {
				if method == "Get" && path == "last_switch" {
					once.Do(func() {
						if fileSwitch(sc, "", hosts[1], "manual", "switchover", "operator2") {
							sc.Cover("operator-request-raced-the-automatic-filing")
						}
					})
				}
			})
		}
		// MySQL-side failure schedule: the chosen statement class fails during the first K attempts
		var fmu sync.Mutex
		attempts := 0
		s.OnZK(func(r fakezk.Rec) {
			if r.Path == NS+"/switch" && r.Op == "set" && strings.Contains(r.Data, `"started_by":"`) && !strings.Contains(r.Data, `"started_by":""`) {
				var rec swRec
				if json.Unmarshal([]byte(r.Data), &rec) == nil {
					fmu.Lock()
					if rec.Result == nil || rec.RunCount >= attempts {
						attempts = rec.RunCount + 1
					}
					fmu.Unlock()
				}
			}
		})
		failing := func() bool {
			fmu.Lock()
			defer fmu.Unlock()
			return attempts > 0 && (sp.FailK < 0 || attempts <= sp.FailK)
		}
		s.W.Fault = func(c *world.StmtCtx) world.FaultAction {
			if !failing() {
				return world.FaultAction{}
			}
			hit := false
			switch sp.FailAt {
			case "stop_io", "change_source", "set_writable", "reset_replica":
				hit = c.Class == sp.FailAt
			case "set_ro_replica":
				hit = (c.Class == "set_ro") && c.Host != hosts[0]
			}
			if hit {
				return world.FaultAction{Kind: "fail", Errno: 1105}
			}
			return world.FaultAction{}
		}
		if sp.FailAt == "catchup" && sp.FailK != 0 {
			// the target can never catch up: its SQL thread is stopped with an unapplied tail
			s.W.Lock()
			t := s.W.Servers[target]
			t.SQLRun = false
			s.W.Unlock()
		}
		// adversarial abort right after the manager's k-th read of the request
		if sp.Abort == "after_manager_read" {
			var amu sync.Mutex
			reads := 0
			done := false
			s.ZK.After = func(r fakezk.Req, ec int32) {
				if r.Op != "get" || r.Path != NS+"/switch" || ec != 0 || !isDaemon(s, r.Client) {
					return
				}
				amu.Lock()
				reads++
				fire := reads == sp.AbortOcc && !done
				if fire {
					done = true
				}
				amu.Unlock()
				if fire {
					s.ZK.Remove("operator", NS+"/switch")
				}
			}
		}
		s.Start()
		time.Sleep(14 * time.Second)
		if sp.LightMnt {
			s.ZK.Put("operator", NS+"/maintenance", fmt.Sprintf(`{"initiated_by":"op","initiated_at":%q,"mysync_paused":false,"should_leave":false,"mode":"light"}`, time.Now().Format(time.RFC3339Nano)))
			time.Sleep(6 * time.Second)
		}
		master := hosts[0]
		file := func(by string) bool {
			switch sp.Kind {
			case "to":
				return fileSwitch(sc, "", target, "manual", "switchover", by)
			case "from":
				return fileSwitch(sc, master, "", "manual", "switchover", by)
			case "failover_manual":
				return fileSwitch(sc, master, "", "manual", "failover", by)
			case "worker_sloppy":
				// an external worker writes the key directly: no master_transition, zero initiated_at, set-not-create
				s.ZK.Put("worker", NS+"/switch", fmt.Sprintf(`{"from":"","to":%q,"cause":"worker","initiated_by":%q}`, target, by))
				return true
			case "auto":
				s.W.Crash(master)
				return true
			}
			return false
		}
		file("operator")
		if sp.Second {
			time.Sleep(time.Duration(1+sc.S.Rng.Intn(8)) * time.Second)
			if ok := fileSwitch(sc, "", hosts[len(hosts)-1], "manual", "switchover", "operator2"); ok {
				sc.Cover("second-initiator-won-after-terminal")
			} else {
				sc.Cover("second-initiator-refused")
			}
		}
		if sp.Abort == "timed" {
			time.Sleep(time.Duration(2+sc.S.Rng.Intn(25)) * time.Second)
			if s.ZK.Remove("operator", NS+"/switch") {
				sc.Cover("timed-abort-hit-pending")
			}
		}
		// run long enough to pass the attempt limit and the timeout (virtual time is cheap)
		run := time.Duration(sp.TimeoutS)*time.Second + 150*time.Second
		if sp.FailK >= 0 && sp.FailK < 5 && sp.Abort == "none" {
			run = 150 * time.Second
		}
		if sp.Limit == 60 && sp.FailK < 0 && run < 500*time.Second {
			run = 500 * time.Second
		}
		end := time.Now().Add(run)
		for time.Now().Before(end) {
			time.Sleep(2 * time.Second)
			mon.mu.Lock()
			idle := mon.cur != nil && mon.cur.terminal != "" && s.W.Now()-mon.cur.termAt > 40*time.Second
			mon.mu.Unlock()
			if _, pending := s.Cached("switch"); idle && !pending {
				break
			}
		}
		// a request cannot end if the process that executes it never comes back from an attempt: with a request pending,
		// some manager iteration must have completed during the last three minutes (the longest legitimate attempt -
		// read-only ladder, catch-up wait - is well below that)
		mon.mu.Lock()
		if q := mon.cur; q != nil && q.terminal == "" && s.W.Now()-mon.lastEnd > 180*time.Second && s.W.Now()-q.filedAt > 200*time.Second {
			if _, pend := s.Cached("switch"); pend {
				sc.Violate("C06", "no-manager-iteration-completes-while-request-pending", fmt.Sprintf("request %s (%s, run_count %d) is pending and no iteration of a managing daemon has completed for %.0f s (last at %.1fs, lock holder %q)",
					q.id, q.rec.Transition, q.rec.RunCount, (s.W.Now()-mon.lastEnd).Seconds(), mon.lastEnd.Seconds(), lockHolder(s)))
			}
		}
		mon.mu.Unlock()
		mon.mu.Lock()
		var outs []string
		for id, q := range mon.all {
			o := q.terminal
			if o == "" {
				o = "pending"
				if q.limitAt > 0 {
					sc.Cover("past-limit")
				}
			}
			outs = append(outs, fmt.Sprintf("%s:%s(run_count=%d)", id, o, q.rec.RunCount))
			sc.Coverf("kind=%s|limit=%d|timeout=%d|failk=%d|failat=%s|abort=%s|light=%v|outcome=%s", sp.Kind, sp.Limit, sp.TimeoutS, sp.FailK, sp.FailAt, sp.Abort, sp.LightMnt, o)
		}
		mon.mu.Unlock()
		sc.Obs("request %s (limit %d, timeout %ds, failing attempts %d at %s, abort %s, light maintenance %v): outcomes %v", sp.Kind, sp.Limit, sp.TimeoutS, sp.FailK, sp.FailAt, sp.Abort, sp.LightMnt, outs)
	})
}

func init() {
	register(&Prop{ID: "C06", Units: func(tier string) int { return tierN(tier, 200, 5000) }, Run: c06Run,
		Floor: func(string) []string {
			return []string{"terminal:succeeded", "terminal:rejected", "terminal:aborted", "attempt-failed", "attempt-limit-reached", "filed-by:daemon", "filed-by:external", "started"}
		},
		Rule: "scenario = request kind (to, from, operator failover, automatic, sloppy external worker) x attempt limit {1,3,60,unlimited} x timeout {2,30 min} x MySQL-side failure schedule (statement class failing for K attempts or forever, or a target that can never catch up) x abort {none, seeded instant, placed by a fake-ZooKeeper callback right after the manager's k-th read of the request} x second initiator x light maintenance; the lifecycle automaton runs over the writes of the three keys in linearization order, bounded-time clauses on the virtual clock; distinct by (kind, limit, timeout, K, failing class, abort, outcome)"})
}
