package sim

import (
	"encoding/json"
	"fmt"
	"os"
	"path/filepath"
	"runtime"
	"testing"
	"time"
)

// TestJob is the entry point of a child process: it executes the units listed in the job file
// named by VERIF_JOB, one scenario per synctest bubble, appending one JSON line per scenario.
func TestJob(t *testing.T) {
	path := os.Getenv("VERIF_JOB")
	if path == "" {
		t.Skip("VERIF_JOB not set")
	}
	raw, err := os.ReadFile(path)
	if err != nil {
		t.Fatal(err)
	}
	var job Job
	if err := json.Unmarshal(raw, &job); err != nil {
		t.Fatal(err)
	}
	p := props[job.Property]
	if p == nil {
		t.Fatalf("unknown property %s", job.Property)
	}
	out, err := os.OpenFile(job.Out, os.O_CREATE|os.O_WRONLY|os.O_APPEND, 0o644)
	if err != nil {
		t.Fatal(err)
	}
	defer out.Close()
	_ = os.MkdirAll(job.Dir, 0o755)
	// real-time stall watchdog, outside every bubble
	go func() {
		last, lastChange := progress.Load(), time.Now()
		for {
			time.Sleep(2 * time.Second)
			cur := progress.Load()
			name := running.Load()
			if cur != last || name == nil || *name == "" {
				last, lastChange = cur, time.Now()
				continue
			}
			if time.Since(lastChange) > 90*time.Second {
				buf := make([]byte, 8<<20)
				buf = buf[:runtime.Stack(buf, true)]
				_ = os.WriteFile(filepath.Join(job.Dir, "stall-goroutines.txt"), buf, 0o644)
				b, _ := json.Marshal(map[string]any{"ev": "stall", "name": *name})
				out.Write(append(b, '\n'))
				out.Sync()
				os.Exit(3)
			}
		}
	}()
	for _, idx := range job.Units {
		u := &Unit{T: t, Job: &job, Idx: idx, Seed: job.Seed*1000003 + int64(idx), out: out}
		u.emit(map[string]any{"ev": "unit-start", "unit": idx})
		p.Run(u)
		u.emit(map[string]any{"ev": "unit-end", "unit": idx})
	}
	fmt.Fprintln(os.Stderr, "job done")
}

// TestMeta prints the number of units and the coverage floor of a property (VERIF_PROP, VERIF_TIER).
func TestMeta(t *testing.T) {
	id := os.Getenv("VERIF_PROP")
	if id == "" {
		t.Skip("VERIF_PROP not set")
	}
	p := props[id]
	if p == nil {
		t.Fatalf("unknown property %s", id)
	}
	tier := os.Getenv("VERIF_TIER")
	m := map[string]any{"units": p.Units(tier), "rule": p.Rule}
	if p.Floor != nil {
		m["floor"] = p.Floor(tier)
	}
	if p.RaceUnits != nil {
		m["race_units"] = p.RaceUnits(tier)
	}
	b, _ := json.Marshal(m)
	fmt.Println("META " + string(b))
}
