package sim

import (
	"encoding/json"
	"fmt"
	"math/rand"
	"os"
	"sort"
	"strings"
	"sync"
	"time"

	"github.com/yandex/mysync/internal/config"
	"github.com/yandex/mysync/verif/world"
)

// C01 — promotion only of a caught-up node backed by a frozen quorum; split brain => nothing
// promoted and the emergency file written. Fault enumeration over the call boundaries of the
// switchover procedure.

type c01Shape struct {
	N        int      `json:"n_ha"`
	Cascade  bool     `json:"cascade"`
	SemiSync bool     `json:"semi_sync"`
	W        int      `json:"wait_count"`
	Force    bool     `json:"force_switchover"`
	Req      string   `json:"request"` // to from auto_crash auto_rofs manual_failover
	Hist     []string `json:"history"` // per replica
	Prio     []int    `json:"priority"`
	Workload bool     `json:"workload"`
	ToIdx    int      `json:"to_idx"`
	MultiSrc bool     `json:"multi_source_base"`
	Async    bool     `json:"async_mode"`       // async: true, async_allowed_lag 20 s, repl_mon on (only without semi-sync)
	MonDelay []int64  `json:"repl_mon_delay_s"` // per replica: what the repl_mon delay query answers
}

var c01Reqs = []string{"to", "from", "auto_crash", "auto_rofs", "manual_failover"}
var c01Hists = []string{"equal", "behind", "tail", "tail", "gap", "errant", "far_behind", "applier_stopped_late"}

func c01Gen(seed int64, idx int) c01Shape {
	r := rand.New(rand.NewSource(seed))
	sh := c01Shape{}
	sh.Req = c01Reqs[idx%len(c01Reqs)]
	sh.N = 2 + r.Intn(3)
	sh.Cascade = r.Intn(4) == 0
	sh.SemiSync = r.Intn(5) != 0
	sh.W = 1 + r.Intn(2)
	sh.Force = r.Intn(3) == 0
	sh.Workload = r.Intn(2) == 0
	sh.MultiSrc = r.Intn(2) == 0
	for i := 1; i < sh.N; i++ {
		h := "equal"
		if r.Intn(2) == 0 {
			h = c01Hists[r.Intn(len(c01Hists))]
		}
		sh.Hist = append(sh.Hist, h)
	}
	// every 6th shape: the first replica's applier stops shortly before the request and the other replicas fall behind in
	// download, so that its received-only tail is held by nobody else
	if (idx/len(c01Reqs))%6 == 2 {
		for i := range sh.Hist {
			sh.Hist[i] = "behind"
		}
		sh.Hist[0] = "applier_stopped_late"
	}
	// a received-but-unapplied tail only stays one while the master keeps writing faster than the replica applies
	for _, h := range sh.Hist {
		if h == "tail" || h == "applier_stopped_late" {
			sh.Workload = true
		}
	}
	// every 6th shape is built to be a split brain (two replicas with different errant transactions)
	if (idx/len(c01Reqs))%6 == 5 && sh.N >= 3 {
		sh.Hist[0], sh.Hist[1] = "errant_late", "errant_late"
	}
	for i := 0; i < sh.N; i++ {
		sh.Prio = append(sh.Prio, []int{0, 0, 5, 10}[r.Intn(4)])
	}
	sh.ToIdx = 1 + r.Intn(sh.N-1)
	if !sh.SemiSync {
		sh.Async = r.Intn(3) != 0
	}
	for i := 1; i < sh.N; i++ {
		sh.MonDelay = append(sh.MonDelay, []int64{3, 19, 20, 100}[r.Intn(4)])
	}
	return sh
}

// applyHistory shapes the GTID sets of the servers before the daemons start.
func c01ApplyHistory(s *Sim, sh c01Shape, hosts []string) {
	w := s.W
	w.Lock()
	defer w.Unlock()
	m := w.Servers[hosts[0]]
	base := world.NewSet()
	if sh.MultiSrc {
		base.AddRange(UUIDOf(50), 1, 40) // transactions of a former master
	}
	base.AddRange(m.UUID, 1, 100)
	m.Executed = base.Clone()
	for i, h := range hosts[1:] {
		r := w.Servers[h]
		r.Executed = base.Clone()
		switch sh.Hist[i] {
		case "behind":
			r.Executed = base.Minus(world.MustParse(m.UUID + ":91-100"))
			r.DownloadRate = 1
		case "far_behind":
			r.Executed = base.Minus(world.MustParse(m.UUID + ":41-100"))
			r.DownloadRate = 1
			r.ApplyRate = 1
		case "tail":
			r.Executed = base.Minus(world.MustParse(m.UUID + ":61-100"))
			r.Retrieved = world.MustParse(m.UUID + ":61-100")
			r.ApplyRate = 1
		case "gap":
			r.Executed = base.Minus(world.MustParse(m.UUID + ":81-84"))
			r.DownloadRate = 1
		case "errant":
			r.Executed.AddRange(r.UUID, 1, int64(1+i))
		}
	}
	for h, src := range s.O.Cascade {
		c := w.Servers[h]
		c.Executed = w.Servers[src].Executed.Clone()
	}
}

// c01Monitor watches promotion events and split-brain obligations.
type c01Monitor struct {
	mu       sync.Mutex
	sc       *Scen
	semi     bool
	w        int
	activeAt map[string][]string // instance -> active list read at the start of its current manager iteration
	needRead map[string]bool
	// split-brain tracking per instance and attempt
	att       map[string]*c01Attempt
	lastStart map[string]string
	// received-but-unapplied transactions a daemon threw away on a host (RESET REPLICA) before promoting it
	lostTail map[string]world.GTIDSet           // host -> received transactions a daemon discarded with the relay log (re-point or reset) before they were executed
	waiver   func(target string) (bool, string) // the async-mode exception of the statement, evaluated on the shape
	// observations
	Promotions int
	SplitAbort int
}

type c01Attempt struct {
	posFail      bool // a position query of the instance failed after the freeze: it cannot know about a split brain
	roOK, ioOK   map[string]bool
	uncertain    map[string]bool
	frozenJudged bool
	split        bool
	splitWhat    string
	promoAfter   []string
	oldMaster    string
}

func newC01Monitor(sc *Scen, semi bool, w int) *c01Monitor {
	m := &c01Monitor{sc: sc, semi: semi, w: w, activeAt: map[string][]string{}, needRead: map[string]bool{}, att: map[string]*c01Attempt{}, lastStart: map[string]string{}, lostTail: map[string]world.GTIDSet{}}
	s := sc.S
	s.OnIter(func(inst, state, next string, begin bool) {
		m.mu.Lock()
		defer m.mu.Unlock()
		if begin && state == "Manager" {
			m.needRead[inst] = true
		}
		if !begin {
			m.endAttempt(inst)
		}
	})
	s.OnDCS(func(inst, method, path, arg, res string) {
		if method == "AcquireLock" {
			m.mu.Lock()
			a := m.att[inst]
			// the obligation starts when the instance passes the lock re-check that follows the freeze
			// (a deposed manager leaves here, which the statement allows)
			// - it is the FIRST answer after the freeze that counts: a later "true" (the re-check after the procedure, when
			// the first one had failed) does not revive the obligation
			first := a != nil && !a.frozenJudged && len(a.roOK) > 0
			need := first && res == "true"
			if first {
				a.frozenJudged = true
			}
			m.mu.Unlock()
			if need {
				snap := s.W.Snapshot() // taken without holding the monitor's mutex (lock order: world before monitor)
				m.mu.Lock()
				m.judgeFrozen(inst, a, snap)
				m.mu.Unlock()
			}
			return
		}
		m.mu.Lock()
		defer m.mu.Unlock()
		if a := m.att[inst]; a != nil && a.frozenJudged && strings.HasPrefix(res, "error") {
			a.posFail = true // a coordination read of the position collection (host priorities) failed
		}
		switch {
		case method == "Get" && path == "active_nodes" && m.needRead[inst]:
			var a []string
			if json.Unmarshal([]byte(res), &a) == nil {
				m.activeAt[inst] = a
			} else {
				m.activeAt[inst] = nil
			}
			m.needRead[inst] = false
		case method == "Set" && path == "switch":
			var sw struct {
				StartedAt string `json:"started_at"`
				StartedBy string `json:"started_by"`
			}
			if json.Unmarshal([]byte(arg), &sw) == nil && sw.StartedBy != "" && sw.StartedAt != m.lastStart[inst] {
				// StartSwitchover: a new attempt begins
				m.lastStart[inst] = sw.StartedAt
				m.endAttempt(inst)
				m.att[inst] = &c01Attempt{roOK: map[string]bool{}, ioOK: map[string]bool{}, uncertain: map[string]bool{}, oldMaster: s.CachedMaster()}
				// what a node lost with its relay log counts within the attempt that threw it away (the procedure promoting a
				// node it has itself just stripped); an earlier attempt's re-point is history the statement does not cover
				m.lostTail = map[string]world.GTIDSet{}
			}
		}
	})
	s.W.Lock()
	s.W.BeforeStmt = append(s.W.BeforeStmt, m.beforeStmt)
	s.W.AfterStmt = append(s.W.AfterStmt, m.afterStmt)
	s.W.Unlock()
	return m
}

func isPromotionClass(class string) bool {
	switch class {
	case "set_writable", "change_source", "reset_replica", "offline_off":
		return true
	}
	return false
}

// afterStmt runs under the world mutex.
func (m *c01Monitor) afterStmt(w *world.World, c *world.StmtCtx) {
	inst := instOfCaller(c.Caller)
	m.mu.Lock()
	defer m.mu.Unlock()
	a := m.att[inst]
	if a != nil && a.frozenJudged && (c.Class == "replica_status" || c.Class == "gtid_executed") && (c.Errno != 0 || c.ReplyDropped || c.Delayed > 0) {
		a.posFail = true
	}
	if a != nil && a.frozenJudged && c.Errno != 0 {
		// (any call: the split is detected right after the positions were collected, so whatever fails between the lock
		// re-check and the end of an attempt that wrote no emergency file failed before the comparison)
		a.posFail = true
	}
	if a != nil && a.frozenJudged && a.roOK[c.Host] && c.Errno != 0 {
		// a frozen member stopped answering (it died after the freeze: the connection attempt, not a position query,
		// is what fails): the instance cannot compare positions and ends the attempt without knowing about the split
		a.posFail = true
	}
	if a == nil || c.Errno != 0 || c.ReplyDropped {
		return
	}
	if c.Delayed > 0 && (c.Class == "set_ro" || c.Class == "set_ro_nosuper" || c.Class == "stop_io") {
		// took effect, but the instance may have given up waiting for the reply: its view is unknown
		a.uncertain[c.Host] = true
		return
	}
	switch c.Class {
	case "set_ro", "set_ro_nosuper":
		if !a.frozenJudged {
			a.roOK[c.Host] = true
		}
	case "stop_io":
		if !a.frozenJudged {
			a.ioOK[c.Host] = true
		}
	}
}

// judgeFrozen is called at the lock re-check that follows the freeze (instance goroutine, no mutex held except m.mu).
func (m *c01Monitor) judgeFrozen(inst string, a *c01Attempt, snap world.Snapshot) {
	var frozen []string
	for h := range a.roOK {
		if a.ioOK[h] || h == a.oldMaster {
			frozen = append(frozen, h)
		}
	}
	sort.Strings(frozen)
	if len(frozen) == 0 {
		return
	}
	hasMax := func(set []string) bool {
		for _, h := range set {
			all := true
			for _, o := range set {
				if !snap[o].Positions().SubsetOf(snap[h].Positions()) {
					all = false
				}
			}
			if all {
				return true
			}
		}
		return len(set) == 0
	}
	// a member that is down at this instant died after its freeze: whether the instance still counts it (it re-reads
	// the cluster state after freezing, through connections whose failures the fakes do not see) is unknown
	for _, h := range frozen {
		if snap[h] != nil && !snap[h].Up {
			a.uncertain[h] = true
		}
	}
	// members whose freeze reply was delayed may or may not count as frozen in the instance's view:
	// the obligation is triggered only if no maximum exists under either reading
	var certain []string
	for _, h := range frozen {
		if !a.uncertain[h] {
			certain = append(certain, h)
		}
	}
	withU := append([]string(nil), certain...)
	for h := range a.uncertain {
		if snap[h] != nil {
			withU = append(withU, h)
		}
	}
	maxExists := hasMax(certain) || hasMax(withU)
	if len(a.uncertain) > 0 {
		// any subset in between: be conservative
		for h := range a.uncertain {
			if snap[h] != nil && hasMax(append(append([]string(nil), certain...), h)) {
				maxExists = true
			}
		}
	}
	if !maxExists {
		a.split = true
		// the procedure compares positions only after its quorum check passed: with fewer certainly frozen members
		// than the failover quorum the attempt ends with "no quorum" and never gets to know about the split
		// (nothing may be promoted all the same, which the promotion oracle and promoAfter still check)
		if len(certain) < m.quorumOf(m.activeAt[inst]) {
			a.posFail = true
		}
		var parts []string
		for _, h := range frozen {
			parts = append(parts, h+"="+snap[h].Positions().OneLine())
		}
		a.splitWhat = strings.Join(parts, " ; ")
	}
}

// quorumOf is the failover quorum of a published list (statement of C12).
func (m *c01Monitor) quorumOf(A []string) int {
	n := len(A)
	req := n / 2
	if m.w < req {
		req = m.w
	}
	quorum := n - req
	if quorum < 1 || !m.semi {
		quorum = 1
	}
	return quorum
}

func (m *c01Monitor) endAttempt(inst string) {
	a := m.att[inst]
	if a == nil {
		return
	}
	delete(m.att, inst)
	if !a.split {
		return
	}
	m.SplitAbort++
	in := m.sc.S.InstByName(inst)
	if len(a.promoAfter) > 0 {
		m.sc.Violate("C01", "promotion-class-statement-after-split-brain", fmt.Sprintf("%s froze members whose transaction sets have no maximum (%s) and still issued %v", inst, a.splitWhat, a.promoAfter))
	}
	if in != nil && !in.deadA.Load() && !a.posFail {
		if _, err := os.Stat(in.Cfg.Emergefile); err != nil {
			m.sc.Violate("C01", "no-emergency-file-after-split-brain", fmt.Sprintf("%s froze members whose transaction sets have no maximum (%s) but its emergency file does not exist when the attempt ends", inst, a.splitWhat))
		}
	}
	m.sc.Cover("split-brain-abort")
}

// beforeStmt runs under the world mutex, before the statement takes effect.
func (m *c01Monitor) beforeStmt(w *world.World, c *world.StmtCtx) {
	inst := instOfCaller(c.Caller)
	m.mu.Lock()
	defer m.mu.Unlock()
	if a := m.att[inst]; a != nil && a.split && isPromotionClass(c.Class) {
		a.promoAfter = append(a.promoAfter, c.Class+"@"+c.Host)
	}
	if (c.Class == "reset_replica" || c.Class == "change_source") && strings.HasPrefix(c.Caller, "mysync_") {
		// both throw the relay log away; what it held and the node has not executed is remembered until the node has
		// executed it (a re-point fetches it again from the new source) - or is promoted without it
		if x := w.Servers[c.Host]; x != nil {
			if t := x.Retrieved.Minus(x.Executed); !t.Empty() {
				if m.lostTail[c.Host] == nil {
					m.lostTail[c.Host] = world.NewSet()
				}
				m.lostTail[c.Host].Union(t)
			}
		}
	}
	if c.Class != "set_writable" {
		return
	}
	master := m.sc.S.CachedMaster()
	x := w.Servers[c.Host]
	if c.Host == master || x == nil {
		return
	}
	// a promotion event
	m.Promotions++
	A := m.activeAt[inst]
	quorum := m.quorumOf(A)
	var F, notF []string
	for _, h := range A {
		srv := w.Servers[h]
		if srv == nil {
			notF = append(notF, h+"(unknown)")
			continue
		}
		ro := !srv.Up || srv.ReadOnly
		sub := srv.Positions().SubsetOf(x.Executed)
		if ro && sub {
			F = append(F, h)
		} else {
			notF = append(notF, fmt.Sprintf("%s(ro=%v up=%v extra=%s)", h, srv.ReadOnly, srv.Up, srv.Positions().Minus(x.Executed).OneLine()))
		}
	}
	inSwitch := m.att[inst] != nil
	m.sc.Obs("promotion of %s by %s at %.3fs: active=%v quorum=%d frozen-and-contained=%v others=%v in-switch=%v", c.Host, inst, w.Now().Seconds(), A, quorum, F, notF, inSwitch)
	allowed, why := false, ""
	if m.waiver != nil {
		allowed, why = m.waiver(c.Host)
	}
	var t string
	lost := false
	if lt := m.lostTail[c.Host]; lt != nil {
		if miss := lt.Minus(x.Executed); !miss.Empty() {
			t, lost = miss.OneLine(), true
		}
		delete(m.lostTail, c.Host)
	}
	if lost {
		// the promoted node itself had received transactions it never executed: its relay log was thrown away
		if allowed {
			m.sc.Cover("async-waiver-used")
			m.sc.Obs("promotion of %s without its received tail %s is covered by the async exception: %s", c.Host, t, why)
		} else {
			m.sc.Violate("C01", "promotion-after-discarding-received-transactions", fmt.Sprintf("%s makes %s writable after its relay log with the received, never executed transactions %s was discarded (%s)", inst, c.Host, t, why), w.DescribeLocked())
		}
	}
	if len(F) < quorum && allowed {
		m.sc.Cover("async-waiver-used")
	} else if len(F) < quorum {
		m.sc.Violate("C01", "promotion-without-frozen-quorum", fmt.Sprintf("%s makes %s writable (recorded master %q) while only %d of the required %d members of the active list %v are read-only and contained in its executed set; not counted: %v",
			inst, c.Host, master, len(F), quorum, A, notF), w.DescribeLocked())
	}
	if !inSwitch {
		m.sc.Violate("C01", "promotion-outside-switch-request", fmt.Sprintf("%s makes %s writable while the recorded master is %q and it is not executing a switch request", inst, c.Host, master), w.DescribeLocked())
	}
	m.sc.Cover("promotion")
}

type c01Fault struct {
	B    Boundary `json:"boundary"`
	Kind string   `json:"kind"`
}

// c01Scenario runs one scenario of a shape, optionally with one injected fault, and returns the tracker.
func c01Scenario(u *Unit, name string, sh c01Shape, fault *c01Fault) (*Tracker, *ScenResult) {
	hosts := append([]string(nil), haNames[:sh.N]...)
	var casc map[string]string
	if sh.Cascade {
		casc = map[string]string{"cas-db9": hosts[len(hosts)-1]}
	}
	opts := Opts{HA: hosts, Cascade: casc, Seed: u.Seed, Workload: sh.Workload, PreConverged: true,
		Cfg: func(h string, c *config.Config) {
			c.SemiSync = sh.SemiSync
			if sh.Async {
				c.ASync, c.AsyncAllowedLag, c.ReplMon = true, 20*time.Second, true
			}
			c.RplSemiSyncMasterWaitForSlaveCount = sh.W
			c.ForceSwitchover = sh.Force
			c.FailoverDelay = 5 * time.Second
			c.SlaveCatchUpTimeout = 60 * time.Second
		}}
	var tr *Tracker
	spec := map[string]any{"shape": sh}
	if fault != nil {
		spec["fault"] = fault
	}
	res := u.Scenario(name, spec, opts, func(sc *Scen) {
		s := sc.S
		for i, h := range hosts {
			s.ZK.Put("setup", NS+"/ha_nodes/"+h, fmt.Sprintf(`{"priority":%d}`, sh.Prio[i]))
		}
		c01ApplyHistory(s, sh, hosts)
		mon := newC01Monitor(sc, sh.SemiSync, sh.W)
		s.W.Lock()
		for i, h := range hosts[1:] {
			d := sh.MonDelay[i]
			s.W.Servers[h].ReplMonDelay = &d
			s.W.Servers[h].ReplMonTable = true
		}
		s.W.Servers[hosts[0]].ReplMonTable = true
		s.W.Unlock()
		mon.waiver = func(target string) (bool, string) {
			// the request being executed (a fault may have turned a manual request into a later automatic failover)
			sw, _ := s.Cached("switch")
			auto := strings.Contains(sw, `"cause":"auto"`)
			for i, h := range hosts[1:] {
				if h == target {
					ok := sh.Async && auto && sh.MonDelay[i] < 20
					return ok, fmt.Sprintf("async mode %v, automatic failover %v, repl_mon delay of %s %d s, allowed lag 20 s", sh.Async, auto, h, sh.MonDelay[i])
				}
			}
			return false, "target is not a replica of the shape"
		}
		tr = NewTracker(sc)
		if fault != nil {
			tr.Target, tr.Kind = &fault.B, fault.Kind
			tr.ReturnHost = hosts[0]
		}
		s.Start()
		// let every daemon publish its health record and the manager complete a few iterations
		time.Sleep(17 * time.Second)
		master := hosts[0]
		tr.Reset()
		// divergence that appears after the list was last recomputed: the members are still listed when the request arrives
		for i, h := range hosts[1:] {
			if sh.Hist[i] == "applier_stopped_late" {
				// the SQL thread of a listed member stops (operator, error) shortly before the request while its IO thread
				// goes on receiving and acknowledging: it holds a growing received-only tail
				s.W.Manual(h, "applier stopped", func(x *world.Server) { x.SQLRun = false })
				sc.Cover("member-with-stopped-applier")
			}
		}
		for i, h := range hosts[1:] {
			if sh.Hist[i] == "applier_stopped_late" {
				time.Sleep(1500 * time.Millisecond)
				break
			}
			_ = h
		}
		for i, h := range hosts[1:] {
			if sh.Hist[i] == "errant_late" {
				n := int64(1 + i)
				s.W.Manual(h, "errant transactions", func(x *world.Server) { x.Executed.AddRange(x.UUID, 1, n) })
			}
		}
		switch sh.Req {
		case "to":
			fileSwitch(sc, "", hosts[sh.ToIdx], "manual", "switchover", "operator")
		case "from":
			fileSwitch(sc, master, "", "manual", "switchover", "operator")
		case "manual_failover":
			fileSwitch(sc, master, "", "manual", "failover", "operator")
		case "manual_failover_to":
			// mysync switch --to <host> --failover
			fileSwitch(sc, "", hosts[sh.ToIdx], "manual", "failover", "operator")
		case "auto_crash":
			// the master dies holding a few binlogged transactions that reached nobody (never acknowledged)
			s.W.Manual(master, "binlogged, unshipped transactions", func(x *world.Server) {
				n := x.Executed.Max(x.UUID)
				x.Executed.AddRange(x.UUID, n+1, n+3)
			})
			s.W.Crash(master)
		case "auto_rofs":
			s.SetROFS(master, true)
		}
		// run until the request is gone and things were quiet for a while, at most 8 virtual minutes
		deadline := time.Now().Add(8 * time.Minute)
		seenSwitch := false
		quietSince := time.Time{}
		for time.Now().Before(deadline) {
			time.Sleep(time.Second)
			_, pending := s.Cached("switch")
			if pending {
				seenSwitch = true
				quietSince = time.Time{}
				continue
			}
			if quietSince.IsZero() {
				quietSince = time.Now()
			}
			if seenSwitch && time.Since(quietSince) > 15*time.Second {
				break
			}
			if !seenSwitch && time.Since(quietSince) > 60*time.Second {
				break
			}
		}
		tr.Stop()
		mon.mu.Lock()
		for inst := range mon.att {
			mon.endAttempt(inst)
		}
		promos, splits := mon.Promotions, mon.SplitAbort
		mon.mu.Unlock()
		fk, fc := "none", "none"
		if fault != nil {
			fk, fc = fault.Kind, fault.B.PhaseClass()
			if !tr.Hit {
				sc.Stat("fault_not_hit", 1)
				fk = "not-hit"
			} else {
				sc.Cover("faultkind:" + fault.Kind)
			}
		}
		outcome := "none"
		if promos > 0 {
			outcome = "promoted"
			sc.Cover("promotion:" + sh.Req)
		}
		if splits > 0 {
			outcome = "split-brain-abort"
		}
		sc.Stat("promotions", promos)
		sc.Stat("split_aborts", splits)
		if promos > 0 || splits > 0 {
			sc.Coverf("n=%d|semi=%v|req=%s|force=%v|fault=%s|at=%s|outcome=%s", sh.N, sh.SemiSync, sh.Req, sh.Force, fk, fc, outcome)
		}
		sc.Obs("request=%s history=%v fault=%v hit=%v: promotions=%d split-brain aborts=%d, master now %q, switch seen=%v", sh.Req, sh.Hist, fault, tr.Hit, promos, splits, s.Master(), seenSwitch)
	})
	return tr, res
}

var c01FaultKinds = []string{"fail", "hang", "delay", "server-dies-before", "server-dies-after", "session-expire", "dcs-fail", "old-master-returns-after"}

// c01Edge: the quorum edge of an automatic failover. Semi-sync cluster of 3-4 nodes with count 1, one replica strictly
// ahead of the others, and that replica is lost or not frozen at its first read-only / stop-IO call (every such call x
// {dies before, fails, hangs}): with one member fewer than the quorum frozen nothing may be promoted.
// c01AsyncEdge: async mode with an allowed lag of 20 s; the preferred replica holds a received-but-unapplied tail and
// its repl_mon delay is inside the allowance. The exception of the statement belongs to AUTOMATIC failover only: the
// operator's forced failover (cause manual, transition failover), a planned switch to that replica and a switch away
// from the master must wait for the tail; the automatic failover (control) may use the allowance.
func c01AsyncEdge(u *Unit, k int) {
	req := []string{"manual_failover", "manual_failover_to", "to", "from", "auto_crash", "manual_failover_to"}[k%6]
	// (mysync refuses to run with semi-sync and async mode together, so the quorum is one and the promoted node itself
	// makes it - unless it is promoted without transactions it had itself received: the relay log it lost when it was
	// re-pointed to the most recent node for the catch-up counts)
	sh := c01Shape{N: 3 + k/6%2, SemiSync: false, Async: true, W: 1, Req: req, Workload: true, ToIdx: 1, Hist: []string{"tail", "equal", "equal"}[:2+k/6%2], Prio: []int{0, 10, 0, 0}[:3+k/6%2], MonDelay: []int64{3, 3, 3}[:2+k/6%2]}
	c01Scenario(u, fmt.Sprintf("c01-%d-async-edge-%s", u.Idx, req), sh, nil)
}

func c01Edge(u *Unit, k int) {
	if ne := tierN(u.Job.Tier, 8, 24); k >= ne {
		c01AsyncEdge(u, k-ne)
		return
	}
	sh := c01Shape{N: 3 + k%2, SemiSync: true, W: 1, Req: "auto_crash", Workload: k%4 < 2, ToIdx: 1}
	if sh.N == 3 && (k/4)%2 == 1 {
		// configured count 2 with a list of three: the master is told to wait for min(3/2, 2) = 1 acknowledgement, and the
		// quorum follows that effective count (3 - 1 = 2), not the configured one (3 - 2 = 1)
		sh.W = 2
	}
	adv := (k / 2) % (sh.N - 1)
	for i := 1; i < sh.N; i++ {
		sh.Hist = append(sh.Hist, "behind")
		sh.MonDelay = append(sh.MonDelay, 3)
	}
	sh.Hist[adv] = "equal"
	for i := 0; i < sh.N; i++ {
		sh.Prio = append(sh.Prio, 0)
	}
	base := fmt.Sprintf("c01-%d-quorum-edge", u.Idx)
	tr, _ := c01Scenario(u, base+"-baseline", sh, nil)
	if tr == nil {
		return
	}
	i := 0
	for _, b := range tr.Boundaries(func(b Boundary) bool {
		return b.Kind == "sql" && b.Host != haNames[0] && b.Occ == 1 && (b.Class == "set_ro" || b.Class == "stop_io")
	}) {
		for _, kind := range []string{"server-dies-before", "fail", "hang"} {
			if b.Host != haNames[adv+1] && kind != "server-dies-before" {
				continue // the other replicas: one control fault each
			}
			f := c01Fault{b, kind}
			c01Scenario(u, fmt.Sprintf("%s-f%d-%s-%s", base, i, kind, strings.ReplaceAll(b.Key(), "|", "_")), sh, &f)
			i++
		}
	}
}

func c01Run(u *Unit) {
	if nb := tierN(u.Job.Tier, 60, 600); u.Idx >= nb {
		c01Edge(u, u.Idx-nb)
		return
	}
	sh := c01Gen(u.Seed, u.Idx)
	base := fmt.Sprintf("c01-%d-%s", u.Idx, sh.Req)
	tr, res := c01Scenario(u, base+"-baseline", sh, nil)
	if tr == nil || res == nil && u.Job.Only == "" {
		return
	}
	// call boundaries of the procedure: every external call of any instance after the request was filed
	// that belongs to a manager iteration; the fault list is derived deterministically from the baseline.
	var bs []Boundary
	if tr != nil {
		bs = tr.Boundaries(func(b Boundary) bool {
			if b.Kind == "dcs" {
				return !strings.HasPrefix(b.Host, "health/") && !strings.HasPrefix(b.Host, "resetup_status") && !strings.HasPrefix(b.Host, "timing")
			}
			return b.Class != "ping" || b.Occ <= 3
		})
	}
	if len(bs) == 0 {
		return
	}
	var faults []c01Fault
	for _, b := range bs {
		for _, k := range c01FaultKinds {
			if (k == "dcs-fail") != (b.Kind == "dcs") && k != "session-expire" {
				continue
			}
			if k == "old-master-returns-after" && (sh.Req != "auto_crash" || b.Kind != "sql" || b.Host == haNames[0]) {
				continue
			}
			faults = append(faults, c01Fault{b, k})
		}
	}
	r := rand.New(rand.NewSource(u.Seed ^ 0x5eed))
	r.Shuffle(len(faults), func(i, j int) { faults[i], faults[j] = faults[j], faults[i] })
	// stratified: the first half of the sample comes from the freeze phase (a member other than the old master is
	// lost or refuses between the approval and the end of the freeze - the "second fault" of a failover), the rest
	// is uniform over all boundaries
	n := tierN(u.Job.Tier, 18, 120)
	nret := 0
	if sh.Req == "auto_crash" {
		nret = tierN(u.Job.Tier, 6, 0) // quick: six more, for the returning old master (thorough samples enough of them anyway)
		n += nret
	}
	if n > len(faults) {
		n = len(faults)
	}
	returns := func(f c01Fault) bool {
		if f.B.Kind != "sql" || f.B.Host == haNames[0] || f.B.Occ > 1 || f.Kind != "old-master-returns-after" {
			return false
		}
		// the crashed master comes back after the positions were read: the calls of the later phases
		switch f.B.Class {
		case "change_source", "stop_replica", "reset_replica", "start_replica", "offline_off":
			return true
		}
		return false
	}
	freeze := func(f c01Fault) bool {
		if f.B.Kind != "sql" || f.B.Host == haNames[0] || f.B.Occ > 1 || f.Kind == "old-master-returns-after" {
			return false
		}
		switch f.B.Class {
		case "set_ro", "set_ro_nosuper", "stop_io":
		default:
			return false
		}
		switch f.Kind {
		case "fail", "hang", "server-dies-before":
			return true
		}
		return false
	}
	k := 0
	// (the first four of them: the member dies - the only freeze fault after which it is not even read-only)
	for i := range faults {
		if k >= 4 || k >= (n-nret)/2 {
			break
		}
		if freeze(faults[i]) && faults[i].Kind == "server-dies-before" {
			faults[k], faults[i] = faults[i], faults[k]
			k++
		}
	}
	for i := k; i < len(faults); i++ {
		if k >= (n-nret)/2 {
			break
		}
		if freeze(faults[i]) {
			faults[k], faults[i] = faults[i], faults[k]
			k++
		}
	}
	// (first after the calls that cut the promotion target off its old source - from then on it cannot follow what the
	// other members may still fetch from the returned master -, then after any other call of the later phases)
	k2 := 0
	for pass := 0; pass < 2; pass++ {
		for i := k; i < len(faults) && k2 < nret && k < n; i++ {
			cut := faults[i].B.Class == "stop_replica"
			if returns(faults[i]) && (pass == 1 || cut) {
				faults[k], faults[i] = faults[i], faults[k]
				k++
				k2++
			}
		}
	}
	for i := 0; i < n; i++ {
		f := faults[i]
		name := fmt.Sprintf("%s-f%d-%s-%s", base, i, f.Kind, strings.ReplaceAll(f.B.Key(), "|", "_"))
		c01Scenario(u, name, sh, &f)
	}
}

func init() {
	register(&Prop{ID: "C01", Units: func(tier string) int { return tierN(tier, 60, 600) + tierN(tier, 8, 24) + tierN(tier, 6, 12) }, Run: c01Run,
		Floor: func(string) []string {
			f := []string{"split-brain-abort"}
			for _, k := range c01Reqs {
				f = append(f, "promotion:"+k)
			}
			for _, k := range c01FaultKinds {
				f = append(f, "faultkind:"+k)
			}
			return f
		},
		Rule: "(plus 6 async-edge units: async mode, the preferred replica with a received-only tail and a repl_mon delay inside the allowed lag, under a forced manual failover away from the master or to that replica, a planned switch to it, a switch away from the master, and - as control - an automatic failover) (plus 8 quorum-edge units: automatic failover in a 3-4 node semi-sync cluster with count 1 - two of the three-node ones with a configured count 2, effective 1 - whose most advanced replica dies, fails or hangs at its first freeze call - all such faults, no sampling) unit = cluster shape (2-4 HA, cascade, semi-sync on/off, wait count, force_switchover, per-replica GTID history from {equal, behind, far behind, received-but-unapplied tail, gap, errant, applier stopped shortly before the request}, multi-source base, priorities, async mode with allowed lag 20 s and per-replica repl_mon delay {3,19,20,100} s when semi-sync is off) x request kind; a fault-free baseline enumerates the external call boundaries after the request, then one run per sampled (boundary x fault kind), half of the sample stratified to the freeze phase (a member other than the old master dies, fails or hangs at its first read-only / stop-IO call); non-trivial = a promotion event or a split-brain abort was observed; distinct by (n, semi-sync, request, force, fault kind, boundary class, outcome)"})
}
