package sim

import (
	"encoding/json"
	"fmt"
	"math"
	"math/rand"
	"os"
	"strings"
	"sync"
	"sync/atomic"
	"time"

	"github.com/yandex/mysync/internal/app"
	nodestate "github.com/yandex/mysync/internal/app/node_state"
	"github.com/yandex/mysync/internal/config"
	"github.com/yandex/mysync/internal/log"
	"github.com/yandex/mysync/verif/fakezk"
	"github.com/yandex/mysync/verif/world"
)

// C17 — offline-mode policy: zone cap (direct calls) and per-pass policy (cluster simulation).

func c17Zone(h, sep string) string {
	if sep == "" {
		return ""
	}
	if i := strings.Index(h, sep); i >= 0 {
		return h[:i]
	}
	return ""
}

func c17Pure(u *Unit, part int) {
	u.Pure(fmt.Sprintf("c17-zone-filter-%d", part), map[string]any{"part": part}, func(sc *Scen) {
		logger, closer, _, err := log.Open(os.DevNull, "error", 100, 50*time.Millisecond)
		if err != nil {
			sc.Inconclusive(err.Error())
			return
		}
		defer closer.Close()
		rng := rand.New(rand.NewSource(u.Seed))
		seps := []string{"-", "", "."}
		pool := []string{"vla-1", "vla-2", "vla.3", "sas-1", "sas-2", "myt1", "myt-2", "vla-4"}
		n := 0
		cnt := tierN(u.Job.Tier, 50000, 800000)
		for i := 0; i < cnt; i++ {
			cfg, _ := config.DefaultConfig()
			cfg.OfflineModeMaxOfflinePct = []int{-5, 0, 1, 32, 33, 34, 49, 50, 51, 66, 67, 99, 100, 150}[rng.Intn(14)]
			if rng.Intn(4) == 0 {
				cfg.OfflineModeMaxOfflinePct = rng.Intn(101)
			}
			cfg.OfflineModeAZSeparator = seps[rng.Intn(3)]
			f := app.NewOfflineModeFilter(&cfg, logger)
			k := 1 + rng.Intn(6)
			perm := rng.Perm(len(pool))
			cs := map[string]*nodestate.NodeState{}
			cs["vla-m"] = &nodestate.NodeState{IsMaster: true, PingOk: true}
			var reps []string
			for _, j := range perm[:k] {
				h := pool[j]
				reps = append(reps, h)
				cs[h] = &nodestate.NodeState{PingOk: true, IsOffline: rng.Intn(3) == 0}
			}
			host := reps[rng.Intn(k)]
			pending := map[string]int{}
			for _, h := range reps {
				if rng.Intn(4) == 0 {
					pending[c17Zone(h, cfg.OfflineModeAZSeparator)] += rng.Intn(2) + 1
				}
			}
			got := f.CanSetOffline(host, cs, pending)
			n++
			az := c17Zone(host, cfg.OfflineModeAZSeparator)
			total, off := 0, 0
			for h, st := range cs {
				if st.IsMaster || c17Zone(h, cfg.OfflineModeAZSeparator) != az {
					continue
				}
				total++
				if st.IsOffline {
					off++
				}
			}
			want := false
			switch {
			case cfg.OfflineModeMaxOfflinePct <= 0:
				want = false
			case cfg.OfflineModeMaxOfflinePct >= 100:
				want = true
			case total == 0:
				want = false
			default:
				want = int(math.Floor(100*float64(off+pending[az]+1)/float64(total))) <= cfg.OfflineModeMaxOfflinePct
			}
			if got != want {
				sc.Violate("C17", "zone-cap-decision", fmt.Sprintf("CanSetOffline(%s)=%v, expected %v: pct=%d separator=%q zone=%q replicas in zone=%d offline=%d pending=%d", host, got, want, cfg.OfflineModeMaxOfflinePct, cfg.OfflineModeAZSeparator, az, total, off, pending[az]))
			}
			sc.Coverf("filter|sep=%q|total=%d|allow=%v", cfg.OfflineModeAZSeparator, total, want)
		}
		sc.Stat("evaluations", n)
		sc.Obs("%d zone layouts (1-6 replicas over 3 zones and 3 separators, percentages around 0/33/50/67/100 and random, pending counts) compared with floor(100(offline+pending+1)/total) <= pct", n)
	})
}

type c17Rep struct {
	Lag     *float64 `json:"lag"`
	Offline bool     `json:"offline"`
	Broken  string   `json:"replication"` // ok stopped permanent
	Stale   bool     `json:"stale_resetup_status"`
	Resetup bool     `json:"resetup_status_true"`
}

type c17Spec struct {
	Pct       int      `json:"max_offline_pct"`
	MasterRO  bool     `json:"master_read_only"`
	Reps      []c17Rep `json:"replicas"`
	MarkM     bool     `json:"master_marked_and_offline"`
	MOff      bool     `json:"master_offline_unmarked"`
	CustomLag bool     `json:"custom_lag_query"`
	// Restart >= 0: that replica has no daemon of its own, starts offline with a small lag and a status written when the
	// scenario starts (fresh, negative: it is brought online); 25 s later its mysqld restarts (offline again, status now
	// older than the server): it must stay offline
	Restart int `json:"replica_restarting_without_a_daemon"`
	// PartialA: replica vla-a is offline (lag far above the threshold) and every SHOW REPLICA STATUS the manager sends to it
	// fails while its pings succeed; vla-b lags above the enable threshold; with a cap of 50 % vla-b must stay online
	PartialA bool `json:"state_collection_of_an_offline_replica_fails_half_way"`
	// SlowOff: two permanently broken online replicas with a small lag; the first offline_mode statement a manager sends
	// to a broken replica takes effect at once but is answered only after the caller's deadline
	SlowOff bool `json:"first_offline_statement_to_a_broken_replica_answered_late"`
}

var c17Hosts = []string{"vla-m", "vla-a", "vla-b", "vla-c", "sas-a", "sas-b", "myt-a"}

const (
	c17Enable   = 100.0
	c17Disable  = 30.0
	c17Interval = 60 * time.Second
)

func c17Gen(seed int64, idx int) c17Spec {
	r := rand.New(rand.NewSource(seed))
	lags := []*float64{fp(5), fp(30), fp(31), fp(60), fp(99), fp(100), fp(101), fp(500), nil}
	sp := c17Spec{Pct: []int{0, 33, 34, 50, 100}[idx%5], MasterRO: r.Intn(6) == 0, MarkM: r.Intn(8) == 0, CustomLag: idx%2 == 1}
	sp.MOff = !sp.MarkM && r.Intn(5) == 0
	for i := 1; i < len(c17Hosts); i++ {
		rp := c17Rep{Lag: lags[r.Intn(len(lags))], Offline: r.Intn(3) == 0, Broken: []string{"ok", "ok", "ok", "stopped", "permanent"}[r.Intn(5)], Stale: r.Intn(6) == 0, Resetup: r.Intn(8) == 0}
		sp.Reps = append(sp.Reps, rp)
	}
	if idx%4 == 1 {
		sp.PartialA, sp.Pct, sp.MasterRO = true, 50, false
		sp.Reps[0] = c17Rep{Lag: fp(500), Offline: true, Broken: "ok"}
		sp.Reps[1] = c17Rep{Lag: fp(500), Offline: false, Broken: "ok"}
		sp.Reps[2] = c17Rep{Lag: fp(5), Offline: false, Broken: "ok"}
	}
	if idx%8 == 6 {
		sp.SlowOff, sp.MasterRO, sp.MarkM, sp.MOff, sp.CustomLag = true, false, false, false, true
		sp.Reps[3] = c17Rep{Lag: fp(5), Offline: false, Broken: "permanent"}
		sp.Reps[4] = c17Rep{Lag: fp(5), Offline: false, Broken: "permanent"}
	}
	sp.Restart = -1
	if idx%3 == 0 && !sp.PartialA && !sp.SlowOff {
		sp.Restart = r.Intn(len(sp.Reps))
		sp.Reps[sp.Restart] = c17Rep{Lag: fp(5), Offline: true, Broken: "ok"}
	}
	return sp
}

func c17Sim(u *Unit) {
	sp := c17Gen(u.Seed, u.Idx)
	hosts := c17Hosts
	master := hosts[0]
	noDaemon := map[string]bool{}
	for i, rp := range sp.Reps {
		if rp.Stale || rp.Resetup || i == sp.Restart {
			noDaemon[hosts[i+1]] = true // its resetup status is whatever the scenario writes
		}
	}
	opts := Opts{HA: hosts, Seed: u.Seed, Workload: true, WorkloadOnly: []string{master}, PreConverged: true, NoDaemon: noDaemon,
		Cfg: func(h string, c *config.Config) {
			c.OfflineModeEnableLag = time.Duration(c17Enable) * time.Second
			c.OfflineModeDisableLag = time.Duration(c17Disable) * time.Second
			c.OfflineModeMaxOfflinePct = sp.Pct
			c.OfflineModeEnableInterval = c17Interval
			c.Failover = false
			c.SemiSync = false
			c.InactivationDelay = 10 * time.Second
			if sp.CustomLag {
				c.Queries = map[string]string{"replication_lag": "SELECT Seconds_Behind_Master FROM mysync_verif.lag"}
			}
		}}
	u.Scenario(fmt.Sprintf("c17-%d-pct%d", u.Idx, sp.Pct), sp, opts, func(sc *Scen) {
		s := sc.S
		w := s.W
		now := time.Now()
		w.Lock()
		if sp.MasterRO {
			ms := w.Servers[master]
			ms.ReadOnly, ms.SuperRO = true, true
		}
		if sp.MarkM || sp.MOff {
			w.Servers[master].Offline = true
		}
		permBroken := map[string]bool{}
		for i, rp := range sp.Reps {
			x := w.Servers[hosts[i+1]]
			x.Lag = rp.Lag
			x.Offline = rp.Offline
			switch rp.Broken {
			case "stopped":
				x.IORun, x.SQLRun = false, false
			case "permanent":
				x.LastIOErrno, x.StickyErr = 13114, true
				permBroken[x.Host] = true
			}
		}
		w.Unlock()
		for i, rp := range sp.Reps {
			h := hosts[i+1]
			if rp.Stale || rp.Resetup {
				t := now.Add(time.Minute)
				if rp.Stale {
					t = now.Add(-3 * time.Hour) // older than the server's start
				}
				b, _ := json.Marshal(map[string]any{"UpdateTime": t, "Status": rp.Resetup})
				s.ZK.Put("setup", NS+"/resetup_status/"+h, string(b))
			}
		}
		if sp.PartialA {
			w.Lock()
			w.Fault = func(c *world.StmtCtx) world.FaultAction {
				if c.Class == "replica_status" && c.Host == hosts[1] && c.Caller != "mysync_"+hosts[1] {
					sc.Cover("collector-query-failed-on-offline-replica")
					return world.FaultAction{Kind: "fail", Errno: 3024}
				}
				return world.FaultAction{}
			}
			w.Unlock()
		}
		if sp.SlowOff {
			var once atomic.Bool
			w.Lock()
			w.Fault = func(c *world.StmtCtx) world.FaultAction {
				if c.Class == "offline_on" && (c.Host == hosts[4] || c.Host == hosts[5]) && c.Caller != "mysync_"+c.Host && once.CompareAndSwap(false, true) {
					sc.Cover("offline-statement-answered-after-the-deadline")
					return world.FaultAction{Kind: "delay", Delay: 8 * time.Second}
				}
				return world.FaultAction{}
			}
			w.Unlock()
		}
		statusAt := map[string]time.Time{} // statuses written by the scenario for hosts without a daemon
		if sp.Restart >= 0 {
			h := hosts[sp.Restart+1]
			b, _ := json.Marshal(map[string]any{"UpdateTime": now, "Status": false})
			s.ZK.Put("setup", NS+"/resetup_status/"+h, string(b))
			statusAt[h] = now
		}
		if sp.MarkM {
			s.ZK.Put("operator", NS+"/recovery/"+master, "null")
		}
		// monitor: statements of one pass (one manager iteration)
		var mu sync.Mutex
		type passT struct {
			begin    time.Duration
			ons      map[string]int // zone -> ON statements so far in this pass
			offAtBeg map[string]bool
			noRepl   map[string]bool
			switchOn bool
		}
		passes := map[string]*passT{}
		var shutdownWrites []time.Time
		lastBrokenOffHost, lastBrokenOff := "", time.Duration(0)
		ons, offs := 0, 0
		s.OnZK(func(r fakezk.Rec) {
			if r.Path == NS+"/last_shutdown_node_time" && (r.Op == "set" || r.Op == "create") {
				var t time.Time
				if json.Unmarshal([]byte(r.Data), &t) == nil {
					mu.Lock()
					shutdownWrites = append(shutdownWrites, t)
					mu.Unlock()
				}
			}
		})
		s.OnIter(func(inst, state, next string, begin bool) {
			if state != "Manager" {
				return
			}
			w.Lock()
			mu.Lock()
			defer w.Unlock()
			defer mu.Unlock()
			if begin {
				p := &passT{begin: w.Now(), ons: map[string]int{}, offAtBeg: map[string]bool{}, noRepl: map[string]bool{}}
				for _, h := range hosts {
					p.offAtBeg[h] = w.Servers[h].Offline
					p.noRepl[h] = w.Servers[h].Source == ""
				}
				_, p.switchOn = s.Cached("switch")
				passes[inst] = p
			} else {
				delete(passes, inst)
			}
		})
		w.Lock()
		w.BeforeStmt = append(w.BeforeStmt, func(w *world.World, c *world.StmtCtx) {
			if (c.Class != "offline_on" && c.Class != "offline_off") || !strings.HasPrefix(c.Caller, "mysync_") {
				return
			}
			inst := instOfCaller(c.Caller)
			mu.Lock()
			defer mu.Unlock()
			p := passes[inst]
			if p == nil || p.switchOn {
				return
			}
			h := c.Host
			x := w.Servers[h]
			ms := w.Servers[master]
			// the fake reports Seconds_Behind_Source = the configured value (0 when none) while both threads run, NULL otherwise
			lagKnown := (x.IORun && x.SQLRun && x.LastIOErrno == 0 && x.LastSQLErrno == 0) || sp.CustomLag
			lag := 0.0
			if x.Lag != nil {
				lag = *x.Lag
			}
			at := fmt.Sprintf("%s: lag=%v known=%v offline=%v permanently broken=%v master read-only=%v pct=%d", h, lag, lagKnown, x.Offline, permBroken[h], ms.ReadOnly, sp.Pct)
			if c.Class == "offline_on" {
				ons++
				if h == master {
					sc.Violate("C17", "master-taken-offline", "the master was taken offline by the repair pass: "+at)
					return
				}
				if p.noRepl[h] {
					return // stale-master handling, another mechanism
				}
				zone := c17Zone(h, "-")
				total, off := 0, 0
				for _, o := range hosts[1:] {
					if c17Zone(o, "-") == zone {
						total++
						if p.offAtBeg[o] {
							off++
						}
					}
				}
				capOK := sp.Pct >= 100 || (sp.Pct > 0 && int(math.Floor(100*float64(off+p.ons[zone]+1)/float64(total))) <= sp.Pct)
				byLag := lagKnown && lag > c17Enable && !ms.ReadOnly && capOK
				byBroken := permBroken[h]
				if byBroken && !byLag {
					// rate limit on ground truth: two such statements (to different hosts) at least the interval apart
					if lastBrokenOffHost != "" && lastBrokenOffHost != h && w.Now()-lastBrokenOff < c17Interval-2*time.Second {
						sc.Violate("C17", "broken-replicas-offline-faster-than-interval", fmt.Sprintf("%s and %s, both permanently broken, received their offline_mode statement %.1fs apart (interval %v): %s", lastBrokenOffHost, h, (w.Now()-lastBrokenOff).Seconds(), c17Interval, at))
					}
					lastBrokenOffHost, lastBrokenOff = h, w.Now()
					// ... and on the timestamps mysync itself wrote
					n := len(shutdownWrites)
					if n >= 2 && shutdownWrites[n-1].Sub(shutdownWrites[n-2]) <= c17Interval-time.Second {
						sc.Violate("C17", "broken-replicas-offline-faster-than-interval", fmt.Sprintf("two permanently broken replicas were taken offline %v apart (interval %v): %s", shutdownWrites[n-1].Sub(shutdownWrites[n-2]), c17Interval, at))
					}
					sc.Cover("on:permanently-broken")
				}
				if !byLag && !byBroken {
					why := "lag not above the enable threshold"
					switch {
					case lagKnown && lag > c17Enable && ms.ReadOnly:
						why = "master is not writable"
					case lagKnown && lag > c17Enable && !capOK:
						why = fmt.Sprintf("zone cap exceeded (zone %s: %d replicas, %d offline at pass start, %d taken offline earlier in this pass)", zone, total, off, p.ons[zone])
					}
					sc.Violate("C17", "offline-on-without-reason:"+strings.Fields(why)[0], fmt.Sprintf("replica taken offline although %s; %s", why, at))
				}
				if byLag {
					sc.Cover("on:lag")
				}
				p.ons[zone]++
			} else {
				offs++
				if h == master {
					if _, marked := s.Cached("recovery/" + master); marked {
						sc.Violate("C17", "marked-master-set-online", "the master is marked for recovery and was set online: "+at)
					}
					sc.Cover("off:master")
					return
				}
				var rs struct {
					UpdateTime time.Time
					Status     bool
				}
				v, ok := s.Cached("resetup_status/" + h)
				// resetup_status is not cached (high churn): read it from the scenario's knowledge
				_ = v
				_ = ok
				var why []string
				if !(lagKnown && lag <= c17Disable) {
					why = append(why, "lag is not known to be at or below the disable threshold")
				}
				if permBroken[h] {
					why = append(why, "replication is permanently broken")
				}
				for i, rp := range sp.Reps {
					if hosts[i+1] == h && (rp.Stale || rp.Resetup) {
						why = append(why, fmt.Sprintf("resetup status is stale=%v / true=%v", rp.Stale, rp.Resetup))
					}
				}
				_ = rs
				if t, ok := statusAt[h]; ok && t.Before(x.Started.Truncate(time.Second)) {
					why = append(why, fmt.Sprintf("its resetup status (written %s) is older than the start of its mysqld (%s) and nothing has refreshed it", t.Format("15:04:05"), x.Started.Format("15:04:05")))
					sc.Cover("restart-without-fresh-status-judged")
				}
				if len(why) > 0 {
					sc.Violate("C17", "offline-off-without-reason:"+strings.Fields(why[0])[0], fmt.Sprintf("replica set online although %v; %s", why, at))
				}
				sc.Cover("off:lag")
			}
		})
		w.Unlock()
		s.Start()
		if sp.Restart >= 0 {
			time.Sleep(25 * time.Second)
			h := hosts[sp.Restart+1]
			if x := s.W.Snapshot()[h]; x != nil && !x.Offline {
				sc.Cover("restarting-replica-was-online-before")
			}
			s.W.Crash(h)
			time.Sleep(2 * time.Second)
			s.W.Restart(h)
			s.W.Manual(h, "lag after restart", func(x *world.Server) { x.Lag = fp(5) })
			time.Sleep(3*c17Interval + 13*time.Second)
		} else {
			time.Sleep(3*c17Interval + 40*time.Second)
		}
		// between the thresholds nothing changes; those above with cap room go offline, those below come online (bounded)
		w.Lock()
		for i, rp := range sp.Reps {
			x := w.Servers[hosts[i+1]]
			if rp.Lag != nil && *rp.Lag > c17Disable && *rp.Lag <= c17Enable && rp.Broken == "ok" && x.Offline != rp.Offline {
				sc.Violate("C17", "mode-changed-between-thresholds", fmt.Sprintf("%s has lag %v between the thresholds and its offline mode changed from %v to %v", x.Host, *rp.Lag, rp.Offline, x.Offline))
			}
			if rp.Lag != nil && *rp.Lag > c17Disable && *rp.Lag <= c17Enable {
				sc.Cover("between-thresholds")
			}
		}
		w.Unlock()
		mu.Lock()
		o1, o2 := ons, offs
		mu.Unlock()
		sc.Stat("offline_on", o1)
		sc.Stat("offline_off", o2)
		sc.Coverf("policy|pct=%d|mro=%v|on=%d|off=%d|mark=%v", sp.Pct, sp.MasterRO, min(o1, 4), min(o2, 4), sp.MarkM)
		sc.Obs("pct %d, master read-only %v, replicas %+v: %d ON and %d OFF statements judged", sp.Pct, sp.MasterRO, sp.Reps, o1, o2)
	})
}

func c17Run(u *Unit) {
	np := tierN(u.Job.Tier, 8, 32)
	if u.Idx < np {
		c17Pure(u, u.Idx)
		return
	}
	c17Sim(u)
}

func init() {
	register(&Prop{ID: "C17", Units: func(tier string) int { return tierN(tier, 8, 32) + tierN(tier, 200, 5000) }, Run: c17Run,
		Floor: func(string) []string {
			return []string{"on:lag", "on:permanently-broken", "off:lag", "off:master", "between-thresholds"}
		},
		Rule: "zone filter: random layouts of 1-6 replicas over 3 zones and 3 separators x percentages x pending counts, CanSetOffline compared with the formula; policy: a 7-node cluster in 3 zones with per-replica lag around both thresholds / unknown, offline flag, stopped or permanently broken replication, stale or positive resetup status, master read-only or marked; every offline_mode statement of a manager pass that processes no switch request is judged (ON: lag above enable and master writable and zone cap counting earlier ONs of the pass, or permanently broken with the shared rate limit judged on the timestamps mysync wrote; OFF: lag at or below disable, not permanently broken, resetup status fresh and negative; master only OFF and only unmarked), and nothing changes between the thresholds; distinct by the cover tuples"})
}
