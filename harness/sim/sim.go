// Package sim runs real mysync App instances inside a synctest bubble against the fake
// ZooKeeper and the fake MySQL world, and judges the recorded executions with monitors.
package sim

import (
	"context"
	"encoding/json"
	"fmt"
	"math/rand"
	"net"
	"os"
	"path/filepath"
	"sort"
	"strconv"
	"strings"
	"sync"
	"sync/atomic"
	"time"

	mysqldrv "github.com/go-sql-driver/mysql"

	"github.com/yandex/mysync/internal/app"
	"github.com/yandex/mysync/internal/config"
	"github.com/yandex/mysync/internal/dcs"
	"github.com/yandex/mysync/internal/log"
	"github.com/yandex/mysync/verif/fakezk"
	"github.com/yandex/mysync/verif/world"
)

// NS is the coordination namespace of every simulated cluster.
const NS = "/test"

var (
	dialOnce sync.Once
	curSim   atomic.Pointer[Sim]
)

func registerDial() {
	dialOnce.Do(func() {
		mysqldrv.RegisterDialContext("tcp", func(ctx context.Context, addr string) (net.Conn, error) {
			s := curSim.Load()
			if s == nil {
				return nil, fmt.Errorf("no simulation running")
			}
			host, port, err := net.SplitHostPort(addr)
			if err != nil {
				return nil, err
			}
			p, _ := strconv.Atoi(port)
			s.mu.Lock()
			from := s.portHost[p]
			caller := s.portCaller[p]
			s.mu.Unlock()
			if from == "" {
				from = "unknown"
			}
			return s.W.Dial(ctx, from, caller, host)
		})
	})
}

// Inst is one mysync process (one incarnation of the daemon on a host).
type Inst struct {
	Host   string
	Name   string // identity at the fakes: host#incarnation
	Port   int
	Cfg    *config.Config
	cancel context.CancelFunc
	done   chan struct{}
	closer func()
	dead   bool
	deadA  atomic.Bool
	flight sync.RWMutex
}

// Caller is the identity under which the instance appears at the fake MySQL servers.
func (i *Inst) Caller() string { return "mysync_" + i.Name }

// Done is closed when the instance's goroutines have returned.
func (i *Inst) Done() <-chan struct{} { return i.done }

// Opts configures a simulation.
type Opts struct {
	HA      []string          // HA hosts; HA[0] is the initial master
	Cascade map[string]string // cascade host -> stream_from
	Decoys  []string          // servers present in the world but registered nowhere
	Cfg     func(host string, c *config.Config)
	Seed    int64
	// NoAutoStart leaves instances stopped (the scenario starts them itself).
	NoAutoStart bool
	// PreConverged initialises semi-sync, master key and active list as a converged cluster.
	PreConverged bool
	// Workload makes clients commit on every reachable writable server.
	Workload bool
	// ResetupTool re-clones a host whose resetup marker file appears.
	ResetupTool bool
	LogLevel    string
	// Hosts without a mysync daemon.
	NoDaemon map[string]bool
	// WorkloadOnly restricts client commits to these hosts (nil = every server).
	WorkloadOnly []string
	// FirstDaemon, when set, is started first so that it wins the manager lock.
	FirstDaemon string
}

// Sim is one simulated cluster.
type Sim struct {
	mu         sync.Mutex
	W          *world.World
	ZK         *fakezk.Server
	Dir        string
	O          Opts
	Rng        *rand.Rand
	Insts      map[string]*Inst // current incarnation per host
	AllInsts   []*Inst
	portHost   map[int]string
	portCaller map[int]string
	nextPort   int
	// DCSGate, when set, can fail a coordination call of an instance before it reaches the server.
	DCSGate   func(inst, method, path string) error
	zkSubs    []func(r fakezk.Rec) // called under the fake ZooKeeper's mutex; may lock the world, must not call the fake
	dcsSubs   []func(inst, method, path, arg, res string)
	fileSubs  []func(host, kind string, appeared bool)
	iterSubs  []func(inst, state, next string, begin bool)
	incarn    map[string]int
	ctx       context.Context
	cancel    context.CancelFunc
	wg        sync.WaitGroup
	files     map[string]bool
	resetupAt map[string]time.Time

	Cache   TreeCache
	started bool

	WorkloadOn       atomic.Bool
	ResetupOn        atomic.Bool
	ResetupTime      time.Duration
	PumpHook         func() // called once per pump step outside all mutexes
	HungAtStop       bool   // some goroutine of the simulation did not return within two virtual minutes of Stop
	PumpHookInternal func()
}

// TreeCache mirrors a few coordination keys so that world hooks (which hold the world mutex)
// can read them without touching the fake ZooKeeper's mutex.
type TreeCache struct {
	mu         sync.Mutex
	EverMaster map[string]bool   // hosts that were the recorded master at some time
	Nodes      map[string]string // path below NS -> data, for master, active_nodes, switch, maintenance, recovery/*, optimization_nodes/*, last_switch, last_rejected_switch
}

func (s *Sim) cacheUpdate(r fakezk.Rec) {
	if !strings.HasPrefix(r.Path, NS+"/") {
		return
	}
	p := strings.TrimPrefix(r.Path, NS+"/")
	if strings.HasPrefix(p, "health/") || strings.HasPrefix(p, "resetup_status") || strings.HasPrefix(p, "timing") {
		return
	}
	s.Cache.mu.Lock()
	defer s.Cache.mu.Unlock()
	switch r.Op {
	case "create", "set":
		s.Cache.Nodes[p] = r.Data
		if p == "master" {
			var m string
			if json.Unmarshal([]byte(r.Data), &m) == nil && m != "" {
				if s.Cache.EverMaster == nil {
					s.Cache.EverMaster = map[string]bool{}
				}
				s.Cache.EverMaster[m] = true
			}
		}
	case "delete", "expire-delete":
		delete(s.Cache.Nodes, p)
	}
}

// Cached returns the cached data of a coordination key below the namespace.
func (s *Sim) Cached(path string) (string, bool) {
	s.Cache.mu.Lock()
	defer s.Cache.mu.Unlock()
	v, ok := s.Cache.Nodes[path]
	return v, ok
}

// CachedChildren lists cached keys directly below prefix.
func (s *Sim) CachedChildren(prefix string) []string {
	s.Cache.mu.Lock()
	defer s.Cache.mu.Unlock()
	var out []string
	for k := range s.Cache.Nodes {
		if strings.HasPrefix(k, prefix+"/") && !strings.Contains(k[len(prefix)+1:], "/") {
			out = append(out, k[len(prefix)+1:])
		}
	}
	sort.Strings(out)
	return out
}

// ActiveNodesCached returns the published list from the cache (safe under the world mutex).
func (s *Sim) ActiveNodesCached() []string {
	v, ok := s.Cached("active_nodes")
	if !ok {
		return nil
	}
	var a []string
	_ = json.Unmarshal([]byte(v), &a)
	return a
}

// WasEverMaster reports whether host was the recorded master at some time of the scenario.
func (s *Sim) WasEverMaster(host string) bool {
	s.Cache.mu.Lock()
	defer s.Cache.mu.Unlock()
	return s.Cache.EverMaster[host]
}

// CachedMaster returns the recorded master from the cache.
func (s *Sim) CachedMaster() string {
	v, ok := s.Cached("master")
	if !ok {
		return ""
	}
	var m string
	_ = json.Unmarshal([]byte(v), &m)
	return m
}

// AllHosts returns HA + cascade hosts.
func (s *Sim) AllHosts() []string {
	out := append([]string(nil), s.O.HA...)
	var cs []string
	for h := range s.O.Cascade {
		cs = append(cs, h)
	}
	sort.Strings(cs)
	return append(out, cs...)
}

// UUIDOf returns the deterministic server uuid of the i-th server.
func UUIDOf(i int) string { return fmt.Sprintf("00000000-0000-0000-0000-%012d", i+1) }

// New builds the world, the coordination tree and (unless NoAutoStart) the instances.
// It must be called inside the synctest bubble.
func New(dir string, o Opts) *Sim {
	registerDial()
	s := &Sim{W: world.New(), ZK: fakezk.New(), Dir: dir, O: o, Rng: rand.New(rand.NewSource(o.Seed)),
		Insts: map[string]*Inst{}, portHost: map[int]string{}, portCaller: map[int]string{}, nextPort: 3300, incarn: map[string]int{},
		files: map[string]bool{}, resetupAt: map[string]time.Time{}, ResetupTime: 20 * time.Second}
	s.ctx, s.cancel = context.WithCancel(context.Background())
	s.Cache.Nodes = map[string]string{}
	s.WorkloadOn.Store(o.Workload)
	s.ResetupOn.Store(o.ResetupTool)
	hosts := s.AllHosts()
	for i, h := range hosts {
		srv := s.W.AddServer(h, UUIDOf(i))
		if i == 0 {
			srv.ReadOnly, srv.SuperRO = false, false
		} else {
			srv.Source, srv.IORun, srv.SQLRun = o.HA[0], true, true
			if src, ok := o.Cascade[h]; ok {
				srv.Source = src
			}
		}
	}
	for i, h := range o.Decoys {
		srv := s.W.AddServer(h, UUIDOf(100+i))
		srv.Source, srv.IORun, srv.SQLRun = o.HA[0], true, true
	}
	s.ZK.OnMutation = func(r fakezk.Rec) {
		s.cacheUpdate(r)
		for _, f := range s.zkSubs {
			f(r)
		}
		if strings.HasPrefix(r.Path, NS+"/health/") && r.Op == "set" {
			return // periodic health refresh; the dcs log has it
		}
		s.W.Log(world.Event{Kind: "zk", Who: r.Client, Class: r.Op, Host: r.Path, Arg: r.Data, Mut: true, ID: r.Sess})
	}
	s.ZK.Put("setup", NS+"/ha_nodes", "")
	for _, h := range o.HA {
		s.ZK.Put("setup", NS+"/ha_nodes/"+h, `{"priority":0}`)
	}
	for h, src := range o.Cascade {
		s.ZK.Put("setup", NS+"/cascade_nodes/"+h, fmt.Sprintf(`{"stream_from":%q}`, src))
	}
	if o.PreConverged {
		s.preConverge()
	}
	curSim.Store(s)
	return s
}

// Start launches the pump and (unless NoAutoStart) one daemon per host, with seeded phase offsets.
// Monitors must have subscribed before.
func (s *Sim) Start() {
	if s.started {
		return
	}
	s.started = true
	if !s.O.NoAutoStart {
		for i, h := range s.AllHosts() {
			if s.O.NoDaemon[h] {
				continue
			}
			d := time.Duration(i)*700*time.Millisecond + time.Duration(s.Rng.Intn(600))*time.Millisecond
			if s.O.FirstDaemon != "" {
				if h == s.O.FirstDaemon {
					d = time.Duration(s.Rng.Intn(300)) * time.Millisecond
				} else {
					d += 1500 * time.Millisecond
				}
			}
			s.StartInst(h, d)
		}
	}
	s.wg.Add(1)
	go s.pump()
}

func (s *Sim) cfgFor(host string) *config.Config {
	c, err := config.DefaultConfig()
	if err != nil {
		panic(err)
	}
	c.SemiSync = true
	c.Failover = true
	c.FailoverDelay = 10 * time.Second
	c.Zookeeper.SessionTimeout = 3 * time.Second
	if s.O.Cfg != nil {
		s.O.Cfg(host, &c)
	}
	return &c
}

func (s *Sim) preConverge() {
	c := s.cfgFor(s.O.HA[0])
	s.W.Lock()
	n := len(s.O.HA)
	wc := n / 2
	if c.RplSemiSyncMasterWaitForSlaveCount < wc {
		wc = c.RplSemiSyncMasterWaitForSlaveCount
	}
	for i, h := range s.O.HA {
		srv := s.W.Servers[h]
		if !c.SemiSync {
			continue
		}
		if i == 0 {
			if wc > 0 {
				srv.SSMaster, srv.WaitCount = true, wc
			}
		} else {
			srv.SSSlave, srv.SSReg = true, true
		}
	}
	s.W.Unlock()
	active := append([]string(nil), s.O.HA...)
	sort.Strings(active)
	b, _ := json.Marshal(active)
	s.ZK.Put("setup", NS+"/active_nodes", string(b))
	s.ZK.Put("setup", NS+"/master", strconv.Quote(s.O.HA[0]))
}

// StartInst starts a new incarnation of the daemon on host after the given delay.
func (s *Sim) StartInst(host string, delay time.Duration) *Inst {
	s.mu.Lock()
	s.incarn[host]++
	inc := s.incarn[host]
	port := s.nextPort
	s.nextPort++
	s.portHost[port] = host
	name := host
	if inc > 1 {
		name = fmt.Sprintf("%s#%d", host, inc)
	}
	s.portCaller[port] = "mysync_" + name
	s.mu.Unlock()
	cfg := s.cfgFor(host)
	cfg.Hostname = host
	cfg.MySQL.User = "mysync_" + name
	cfg.MySQL.Password = "pw"
	cfg.MySQL.ReplicationUser = "repl"
	cfg.MySQL.ReplicationPassword = "replpw"
	cfg.MySQL.Port = port
	cfg.MySQL.PidFile = filepath.Join(s.Dir, host+".pid")
	cfg.MySQL.ErrorLog = filepath.Join(s.Dir, host+".err")
	touch(cfg.MySQL.ErrorLog)
	if _, err := os.Stat(cfg.MySQL.PidFile); err != nil {
		_ = os.WriteFile(cfg.MySQL.PidFile, []byte(strconv.Itoa(os.Getpid())), 0o644)
	}
	du := filepath.Join(s.Dir, host+".du")
	if _, err := os.Stat(du); err != nil {
		_ = os.WriteFile(du, []byte("50"), 0o644)
	}
	ro := filepath.Join(s.Dir, host+".ro")
	if _, err := os.Stat(ro); err != nil {
		_ = os.WriteFile(ro, []byte("false"), 0o644)
	}
	cfg.TestDiskUsageFile = du
	cfg.TestFilesystemReadonlyFile = ro
	cfg.Emergefile = filepath.Join(s.Dir, host+".emerge")
	cfg.Resetupfile = filepath.Join(s.Dir, host+".resetup")
	cfg.Maintenancefile = filepath.Join(s.Dir, host+".maint")
	cfg.InfoFile = filepath.Join(s.Dir, host+".info")
	cfg.Zookeeper.Hostname = name
	cfg.Zookeeper.Namespace = NS
	cfg.Zookeeper.Hosts = []string{"zk1:2181"}
	cfg.Zookeeper.BackoffMaxRetries = 0
	cfg.SetDynamicDefaults()
	if err := cfg.Validate(); err != nil {
		panic(err)
	}
	lvl := s.O.LogLevel
	if lvl == "" {
		lvl = "info"
	}
	logger, closer, _, err := log.Open(filepath.Join(s.Dir, strings.ReplaceAll(name, "#", "_")+".log"), lvl, 2000, 200*time.Millisecond)
	if err != nil {
		panic(err)
	}
	ctx, cancel := context.WithCancel(s.ctx)
	in := &Inst{Host: host, Name: name, Port: port, Cfg: cfg, cancel: cancel, done: make(chan struct{}), closer: func() { closer.Close() }}
	s.mu.Lock()
	s.Insts[host] = in
	s.AllInsts = append(s.AllInsts, in)
	s.mu.Unlock()
	s.wg.Add(1)
	go func() {
		defer s.wg.Done()
		defer close(in.done)
		defer closer.Close()
		if delay > 0 {
			select {
			case <-time.After(delay):
			case <-ctx.Done():
				return
			}
		}
		inner, err := dcs.NewZookeeperVerif(ctx, &cfg.Zookeeper, logger, func(network, address string, timeout time.Duration) (net.Conn, error) {
			if ctx.Err() != nil {
				// the instance is shutting down: hand the client a dead connection so that its
				// connect loop (which checks for Close only after a successful dial) can end
				time.Sleep(5 * time.Millisecond)
				a, b := net.Pipe()
				b.Close()
				return a, nil
			}
			c, err := s.ZK.Dial(name)
			if err != nil {
				time.Sleep(5 * time.Millisecond) // paces the client's reconnect loop under a virtual clock
			}
			return c, err
		})
		if err != nil {
			panic(err)
		}
		d := &recDCS{inner: inner, zk: s.ZK, w: s.W, name: name, flight: &in.flight, gate: func(m, p string) error {
			if in.deadA.Load() {
				return errCut
			}
			if g := s.DCSGate; g != nil {
				return g(name, m, p)
			}
			return nil
		}, after: func(m, p, arg, res string) {
			if !in.deadA.Load() {
				for _, f := range s.dcsSubs {
					f(name, m, p, arg, res)
				}
			}
		}}
		a, err := app.NewVerifApp(cfg, logger, closer, d)
		if err != nil {
			panic(err)
		}
		s.W.Log(world.Event{Kind: "world", Who: name, Host: host, Class: "inst-start"})
		a.VerifRun(ctx, func(state, next string, begin bool) {
			ph := "ret"
			if begin {
				ph = "call"
			}
			s.W.Log(world.Event{Kind: "iter", Who: name, Host: host, Class: state, Res: next, Phase: ph})
			for _, f := range s.iterSubs {
				f(name, state, next, begin)
			}
		})
		s.W.Log(world.Event{Kind: "world", Who: name, Host: host, Class: "inst-exit"})
	}()
	return in
}

func touch(p string) {
	f, err := os.OpenFile(p, os.O_CREATE|os.O_WRONLY, 0o644)
	if err == nil {
		f.Close()
	}
}

// Kill emulates the death of the daemon process on host: all its connections die, later dials
// are refused, and its goroutines unwind without being able to touch the world any more.
func (s *Sim) Kill(host string) *Inst {
	s.mu.Lock()
	in := s.Insts[host]
	s.mu.Unlock()
	if in == nil || in.dead {
		return in
	}
	in.dead = true
	in.deadA.Store(true)
	s.zkFault(in, func() { s.ZK.Cut(in.Name, true) })
	s.W.KillCaller(in.Caller())
	in.cancel()
	return in
}

// KillLocked is Kill for use inside world hooks (world mutex held, no blocking).
func (s *Sim) KillLocked(in *Inst) {
	if in == nil || in.dead {
		return
	}
	in.dead = true
	in.deadA.Store(true)
	conns := s.W.KillCallerLocked(in.Caller())
	go func() {
		s.zkFault(in, func() { s.ZK.Cut(in.Name, true) })
		for _, c := range conns {
			c.Close()
		}
		in.cancel()
	}()
}

// OnDCS subscribes to every recorded coordination call (called outside all mutexes, after the call returned).
// Subscriptions must be made before instances start.
func (s *Sim) OnDCS(f func(inst, method, path, arg, res string)) { s.dcsSubs = append(s.dcsSubs, f) }

// OnFile subscribes to the appearance / removal of a host's emerge, resetup and maint files (polled every pump step,
// called without any harness lock held).
func (s *Sim) OnFile(f func(host, kind string, appeared bool)) { s.fileSubs = append(s.fileSubs, f) }

// OnZK subscribes to every mutation of the coordination tree (called under the fake's mutex, after the cache update).
func (s *Sim) OnZK(f func(r fakezk.Rec)) { s.zkSubs = append(s.zkSubs, f) }

// OnIter subscribes to the begin/end of every state handler.
func (s *Sim) OnIter(f func(inst, state, next string, begin bool)) {
	s.iterSubs = append(s.iterSubs, f)
}

// Inst returns the current incarnation on host.
func (s *Sim) Inst(host string) *Inst {
	s.mu.Lock()
	defer s.mu.Unlock()
	return s.Insts[host]
}

// InstByName finds an instance by its identity.
func (s *Sim) InstByName(name string) *Inst {
	s.mu.Lock()
	defer s.mu.Unlock()
	for _, in := range s.AllInsts {
		if in.Name == name || in.Caller() == name {
			return in
		}
	}
	return nil
}

// zkFault applies a connection-level fault to an instance's ZooKeeper client while no
// coordination call of that instance is in flight.
func (s *Sim) zkFault(in *Inst, f func()) {
	in.flight.Lock()
	f()
	in.flight.Unlock()
}

// ExpireSession expires the ZooKeeper session of an instance (by identity) and resets its connection.
func (s *Sim) ExpireSession(name string) {
	if in := s.InstByName(name); in != nil {
		s.zkFault(in, func() {
			s.ZK.ExpireClient(in.Name)
			s.ZK.ResetConns(in.Name)
		})
		s.W.Log(world.Event{Kind: "world", Who: "world", Host: in.Host, Class: "zk-session-expired", Arg: in.Name})
	}
}

// ZKOutage cuts (or heals) the coordination service for everybody.
func (s *Sim) ZKOutage(on bool) {
	s.mu.Lock()
	insts := append([]*Inst(nil), s.AllInsts...)
	s.mu.Unlock()
	for _, in := range insts {
		in.flight.Lock()
	}
	s.ZK.Outage(on)
	for _, in := range insts {
		in.flight.Unlock()
	}
	s.W.Log(world.Event{Kind: "world", Who: "world", Host: "*", Class: map[bool]string{true: "zk-outage", false: "zk-outage-end"}[on]})
}

// CutZK cuts (or heals) the coordination service for the daemon on host.
func (s *Sim) CutZK(host string, on bool) {
	if in := s.Inst(host); in != nil {
		s.zkFault(in, func() { s.ZK.Cut(in.Name, on) })
		s.W.Log(world.Event{Kind: "world", Who: "world", Host: host, Class: map[bool]string{true: "zk-cut", false: "zk-heal"}[on]})
	}
}

func (s *Sim) pump() {
	defer s.wg.Done()
	tk := time.NewTicker(100 * time.Millisecond)
	defer tk.Stop()
	for {
		select {
		case <-s.ctx.Done():
			return
		case <-tk.C:
			if s.WorkloadOn.Load() {
				targets := s.O.WorkloadOnly
				if targets == nil {
					targets = s.AllHosts()
				}
				for _, h := range targets {
					for c := 0; c < s.W.ClientsPer; c++ {
						s.W.Commit(h, c)
					}
				}
			}
			s.W.Step()
			s.pollFiles()
			if s.PumpHook != nil {
				s.PumpHook()
			}
			if s.PumpHookInternal != nil {
				s.PumpHookInternal()
			}
		}
	}
}

func exists(p string) bool { _, err := os.Stat(p); return err == nil }

// FileExists reports whether a marker file of host exists (emerge, resetup, maint).
func (s *Sim) FileExists(host, kind string) bool {
	return exists(filepath.Join(s.Dir, host+"."+kind))
}

// RemoveFile removes a marker file.
func (s *Sim) RemoveFile(host, kind string) { _ = os.Remove(filepath.Join(s.Dir, host+"."+kind)) }

func (s *Sim) pollFiles() {
	for _, h := range s.AllHosts() {
		for _, kind := range []string{"emerge", "resetup", "maint"} {
			k := h + "." + kind
			ex := s.FileExists(h, kind)
			if ex != s.files[k] {
				s.files[k] = ex
				s.W.Log(world.Event{Kind: "file", Who: h, Host: h, Class: kind, Res: map[bool]string{true: "appeared", false: "removed"}[ex]})
				for _, f := range s.fileSubs {
					f(h, kind, ex)
				}
			}
		}
		if s.ResetupOn.Load() && s.files[h+".resetup"] {
			at, ok := s.resetupAt[h]
			if !ok {
				s.resetupAt[h] = time.Now().Add(s.ResetupTime)
			} else if time.Now().After(at) {
				master := s.Master()
				s.W.Lock()
				m := s.W.Servers[master]
				okm := master != "" && master != h && m != nil && m.Up
				s.W.Unlock()
				if okm {
					s.W.Reclone(h, master)
					s.RemoveFile(h, "resetup")
					delete(s.resetupAt, h)
				} else {
					s.resetupAt[h] = time.Now().Add(5 * time.Second)
				}
			}
		}
	}
}

// SetROFS makes the filesystem of host read-only (or writable again): the daemon's test file says so
// and the server can no longer commit anything.
func (s *Sim) SetROFS(host string, on bool) {
	_ = os.WriteFile(filepath.Join(s.Dir, host+".ro"), []byte(fmt.Sprint(on)), 0o644)
	s.W.Manual(host, fmt.Sprintf("filesystem read-only=%v", on), func(x *world.Server) { x.FSReadOnly = on })
}

// Master returns the recorded master ("" if none).
func (s *Sim) Master() string {
	v, ok := s.ZK.Get(NS + "/master")
	if !ok {
		return ""
	}
	var m string
	_ = json.Unmarshal([]byte(v), &m)
	return m
}

// ActiveNodes returns the published active list.
func (s *Sim) ActiveNodes() []string {
	v, ok := s.ZK.Get(NS + "/active_nodes")
	if !ok {
		return nil
	}
	var a []string
	_ = json.Unmarshal([]byte(v), &a)
	return a
}

// Stop tears everything down; every goroutine of the simulation must have returned afterwards.
func (s *Sim) Stop() {
	s.cancel()
	// make sure nothing keeps a daemon goroutine waiting for a reply that never comes
	for _, in := range s.AllInsts {
		s.W.KillCaller(in.Caller())
	}
	// a daemon whose loop never comes back (a goroutine parked for good inside the code under test) must not hang the
	// tear-down: after twenty virtual minutes the scenario goes on, and what is left shows up in the bubble's leak list.
	// (Not two: some loops of the daemon look at their context only in a select beside a ticker that is always ready
	// after their error sleep, so each round ends them with probability one half - replMonWriter with a dead local
	// server needed more than twelve rounds once in about 6000 scenarios, which is slow, not a leak.)
	done := make(chan struct{})
	go func() { s.wg.Wait(); close(done) }()
	select {
	case <-done:
	case <-time.After(20 * time.Minute):
		s.HungAtStop = true
	}
	s.ZK.Shutdown()
	// fake servers may still sit in the bounded sleep of a delayed reply (at most 7 s): let them run into the closed
	// connection, so that what the tear-down lists afterwards are goroutines that would never end
	time.Sleep(8 * time.Second)
	curSim.CompareAndSwap(s, nil)
}

// WaitUntil polls cond every step until it holds or max virtual time has passed.
func (s *Sim) WaitUntil(max, step time.Duration, cond func() bool) bool {
	deadline := time.Now().Add(max)
	for {
		if cond() {
			return true
		}
		if time.Now().After(deadline) {
			return false
		}
		time.Sleep(step)
	}
}

// Canonical describes whether the cluster is in the canonical converged state.
type Canonical struct {
	OK     bool
	Why    string
	Code   string // short cause code for finding signatures
	Master string
}

// CheckCanonical evaluates the final-state oracle of C02/C07 on ground truth: exactly one
// writable online server, equal to the recorded master; every reachable HA replica read-only
// and replicating from it with both threads.
func (s *Sim) CheckCanonical(reachable func(h string) bool) Canonical {
	master := s.Master()
	s.W.Lock()
	defer s.W.Unlock()
	var writable []string
	for _, h := range s.AllHosts() {
		srv := s.W.Servers[h]
		if srv.Up && !srv.ReadOnly {
			writable = append(writable, h)
		}
	}
	sort.Strings(writable)
	if len(writable) != 1 {
		code := "no-writable-server"
		if len(writable) > 1 {
			code = "several-writable-servers"
		}
		return Canonical{Why: fmt.Sprintf("writable servers: %v", writable), Code: code, Master: master}
	}
	if writable[0] != master {
		return Canonical{Why: fmt.Sprintf("writable %s != recorded master %q", writable[0], master), Code: "writable-is-not-recorded-master", Master: master}
	}
	if s.W.Servers[master].Offline {
		code := "master-offline"
		if _, marked := s.Cached("recovery/" + master); marked {
			code = "recorded-master-offline-with-recovery-mark"
		}
		return Canonical{Why: "the recorded master is writable but in offline mode (client sessions are refused)", Code: code, Master: master}
	}
	for _, h := range s.O.HA {
		if h == master || (reachable != nil && !reachable(h)) {
			continue
		}
		srv := s.W.Servers[h]
		if !srv.Up {
			continue
		}
		if !srv.ReadOnly {
			return Canonical{Why: h + " is not read-only", Code: "replica-not-read-only", Master: master}
		}
		if srv.Source != master || !srv.IORun || !srv.SQLRun || srv.LastIOErrno != 0 || srv.LastSQLErrno != 0 {
			return Canonical{Why: fmt.Sprintf("%s not replicating from master (src=%q io=%v sql=%v)", h, srv.Source, srv.IORun, srv.SQLRun), Code: "replica-not-following", Master: master}
		}
	}
	return Canonical{OK: true, Master: master}
}

// LostAcked returns acknowledged transactions missing from host's executed set.
func (s *Sim) LostAcked(host string) []*world.Txn {
	s.W.Lock()
	defer s.W.Unlock()
	m := s.W.Servers[host]
	var lost []*world.Txn
	if m == nil {
		return nil
	}
	for _, t := range s.W.Txns {
		if t.State == "acked" && !m.Executed.Has(t.UUID, t.Gno) {
			lost = append(lost, t)
		}
	}
	return lost
}
