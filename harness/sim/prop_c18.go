package sim

import (
	"encoding/json"
	"fmt"
	"math/rand"
	"os"
	"strings"
	"sync"
	"sync/atomic"
	"time"

	"github.com/yandex/mysync/internal/config"
	"github.com/yandex/mysync/verif/fakezk"
	"github.com/yandex/mysync/verif/world"
)

// C18 — disk-space guard: the statement's table applied to the health records the manager read
// in the iteration and to the master's state as the manager saw it.

type c18Spec struct {
	N        int      `json:"n_ha"`
	W        int      `json:"wait_count"`
	Keep     bool     `json:"keep_super_writable"`
	MasterDU int      `json:"master_usage"`
	RepDU    []int    `json:"replica_usage"`
	RepState []string `json:"replica_state"`    // semisync stopped not_semisync no_report probe_fails (the daemon runs, its disk probe fails: no usage in the record)
	StartRO  string   `json:"master_initially"` // writable read_only super_read_only
	Then     []int    `json:"master_usage_later"`
	SlowHC   bool     `json:"master_daemon_health_check_every_20s"`         // legal: the hosts' health-check intervals differ (manager 5 s)
	ROFails  bool     `json:"read_only_statements_fail_in_the_first_phase"` // every SET read_only on the master fails with 1205 until the usage changes
	Terms    bool     `json:"manager_changes_before_every_usage_change"`    // the manager's session expires before every later usage value: the guard's changes are made by alternating processes
}

const (
	c18Crit    = 90.0
	c18NonCrit = 80.0
)

var c18Levels = []int{50, 80, 81, 89, 90, 97}

func c18Gen(seed int64, idx int) c18Spec {
	r := rand.New(rand.NewSource(seed))
	sp := c18Spec{N: 1 + r.Intn(4), W: 1 + r.Intn(2), Keep: r.Intn(2) == 0, MasterDU: c18Levels[idx%len(c18Levels)], StartRO: []string{"writable", "read_only", "super_read_only"}[(idx/6)%3]}
	for i := 1; i < sp.N; i++ {
		sp.RepDU = append(sp.RepDU, c18Levels[r.Intn(len(c18Levels))])
		sp.RepState = append(sp.RepState, []string{"semisync", "semisync", "semisync", "stopped", "not_semisync", "no_report"}[r.Intn(6)])
	}
	for i := 0; i < 2; i++ {
		sp.Then = append(sp.Then, c18Levels[r.Intn(len(c18Levels))])
	}
	sp.ROFails = r.Intn(4) == 0
	sp.SlowHC = r.Intn(4) == 0
	if idx%9 == 7 {
		// a healthy semi-sync replica whose daemon cannot determine its disk usage (the record carries no usage) beside
		// one that reports critical / grey-zone usage: the first one is no evidence of space
		sp.N, sp.W, sp.ROFails, sp.SlowHC, sp.MasterDU = 3, 1, false, false, 50
		sp.RepState = []string{"probe_fails", "semisync"}
		if (idx/9)%2 == 0 {
			sp.RepDU, sp.StartRO = []int{50, 97}, "writable"
		} else {
			sp.RepDU, sp.StartRO = []int{50, 89}, "read_only"
		}
		sp.Then = []int{50, 50}
	}
	if idx%9 == 4 {
		// manager terms: one semi-sync replica with normal usage, the master's usage crossing both thresholds again and
		// again, every crossing handled by another process than the previous one
		sp.Terms, sp.N, sp.W, sp.ROFails, sp.SlowHC = true, 2, 1, false, false
		sp.RepDU, sp.RepState = []int{50}, []string{"semisync"}
		a, b := 97, 50
		if r.Intn(2) == 0 {
			a, b = 50, 97
		}
		sp.MasterDU, sp.Then = a, []int{b, a, b, a}
		if a == 50 {
			sp.StartRO = "read_only"
		} else {
			sp.StartRO = "writable"
		}
	}
	return sp
}

type c18Health struct {
	IsMaster bool `json:"is_master"`
	Disk     *struct {
		Used  float64 `json:"Used"`
		Total float64 `json:"Total"`
	} `json:"disk_state"`
	Slave *struct {
		State string `json:"replication_state"`
	} `json:"slave_state"`
	SS *struct {
		Slave bool `json:"slave_enabled"`
	} `json:"semi_sync_state"`
}

type c18Iter struct {
	health  map[string]c18Health
	roNote  string
	wc      int
	stmts   []string
	pingOK  bool
	switchP bool
	lowSet  []string
}

func c18Run(u *Unit) {
	sp := c18Gen(u.Seed, u.Idx)
	hosts := append([]string(nil), haNames[:sp.N]...)
	master := hosts[0]
	noDaemon := map[string]bool{}
	for i, st := range sp.RepState {
		if st == "no_report" {
			noDaemon[hosts[i+1]] = true
		}
	}
	opts := Opts{HA: hosts, Seed: u.Seed, Workload: true, WorkloadOnly: []string{master}, PreConverged: true, NoDaemon: noDaemon,
		Cfg: func(h string, c *config.Config) {
			c.CriticalDiskUsage = c18Crit
			c.NotCriticalDiskUsage = c18NonCrit
			c.KeepSuperWritableOnCriticalDiskUsage = sp.Keep
			c.RplSemiSyncMasterWaitForSlaveCount = sp.W
			c.Failover = false
			c.InactivationDelay = 3600 * time.Second // membership stays put: this check is about the guard
			c.ExcludeUsers = []string{"admin"}
			if sp.SlowHC && h == master {
				c.HealthCheckInterval = 20 * time.Second
			}
		}}
	if sp.SlowHC && sp.N >= 2 && !noDaemon[hosts[1]] {
		opts.FirstDaemon = hosts[1] // the manager runs with the default interval, the master's daemon with the long one
	}
	u.Scenario(fmt.Sprintf("c18-%d-m%d-%s", u.Idx, sp.MasterDU, sp.StartRO), sp, opts, func(sc *Scen) {
		s := sc.S
		w := s.W
		du := func(h string, v int) { _ = os.WriteFile(s.Dir+"/"+h+".du", []byte(fmt.Sprint(v)), 0o644) }
		du(master, sp.MasterDU)
		w.Lock()
		ms := w.Servers[master]
		switch sp.StartRO {
		case "read_only":
			ms.ReadOnly, ms.SuperRO = true, false
		case "super_read_only":
			ms.ReadOnly, ms.SuperRO = true, true
		}
		for i, st := range sp.RepState {
			x := w.Servers[hosts[i+1]]
			switch st {
			case "stopped":
				x.IORun, x.SQLRun = false, false
			case "not_semisync":
				x.SSSlave, x.SSReg = false, false
			}
		}
		w.Unlock()
		for i, v := range sp.RepDU {
			du(hosts[i+1], v)
			if sp.RepState[i] == "probe_fails" {
				_ = os.WriteFile(s.Dir+"/"+hosts[i+1]+".du", []byte("unreadable"), 0o644)
				sc.Cover("replica-with-failing-disk-probe")
			}
		}
		var mu sync.Mutex
		its := map[string]*c18Iter{}
		judged := 0
		s.OnIter(func(inst, state, next string, begin bool) {
			if state != "Manager" {
				return
			}
			mu.Lock()
			defer mu.Unlock()
			if begin {
				_, sw := s.Cached("switch")
				its[inst] = &c18Iter{health: map[string]c18Health{}, wc: -1, switchP: sw}
				return
			}
			it := its[inst]
			delete(its, inst)
			if it == nil || it.switchP || !it.pingOK || it.roNote == "" {
				return
			}
			mh, ok := it.health[master]
			if !ok || mh.Disk == nil || mh.Disk.Total == 0 {
				return
			}
			judged++
			usage := func(h c18Health) float64 { return 100 * h.Disk.Used / h.Disk.Total }
			mu2 := usage(mh)
			running, low, normal := 0, 0, 0
			for h, hh := range it.health {
				if h == master || hh.Disk == nil || hh.Disk.Total == 0 {
					continue
				}
				if hh.SS != nil && hh.SS.Slave && hh.Slave != nil && hh.Slave.State == "running" {
					running++
					switch {
					case usage(hh) >= c18Crit:
						low++
					case usage(hh) <= c18NonCrit:
						normal++
					}
				}
			}
			ro := strings.Contains(it.roNote, "ro=1")
			sro := strings.Contains(it.roNote, "sro=1")
			mustRO := mu2 >= c18Crit || (low >= 1 && running-low < it.wc)
			mustNotRO := mu2 < c18Crit && (running == 0 || running-low >= it.wc)
			mayWrite := mu2 <= c18NonCrit && (running == 0 || normal >= 1)
			view := fmt.Sprintf("master usage %.0f%%, running semi-sync replicas %d (critical %d, normal %d), wait count %d, master %s, keep super writable %v", mu2, running, low, normal, it.wc, it.roNote, sp.Keep)
			var roStmts, wrStmts int
			for _, st := range it.stmts {
				switch st {
				case "set_ro", "set_ro_nosuper":
					roStmts++
					want := "set_ro"
					if sp.Keep {
						want = "set_ro_nosuper"
					}
					if st != want {
						sc.Violate("C18", "wrong-read-only-flavour", fmt.Sprintf("%s sent %s, expected %s: %s", inst, st, want, view))
					}
				case "set_writable":
					wrStmts++
				}
			}
			switch {
			case mustRO:
				already := ro && (sp.Keep != sro)
				if !already && roStmts == 0 {
					sc.Violate("C18", "not-made-read-only-at-critical-usage", fmt.Sprintf("%s sent no read-only statement to the master: %s", inst, view))
				}
				if wrStmts > 0 {
					sc.Violate("C18", "made-writable-at-critical-usage", fmt.Sprintf("%s made the master writable: %s", inst, view))
				}
				sc.Cover("cell:must-ro")
				if already {
					sc.Cover("cell:already-ro")
				}
			case mustNotRO && roStmts > 0:
				sc.Violate("C18", "made-read-only-without-reason", fmt.Sprintf("%s made the master read-only: %s", inst, view))
			}
			if !mustRO && wrStmts > 0 && !(mayWrite && ro) {
				sc.Violate("C18", "made-writable-outside-the-table", fmt.Sprintf("%s made the master writable: %s", inst, view))
			}
			if !mustRO && mustNotRO && mayWrite && ro && wrStmts == 0 {
				sc.Violate("C18", "not-made-writable-after-recovery", fmt.Sprintf("%s left the master read-only: %s", inst, view))
			}
			if !mustRO && !mayWrite {
				sc.Cover("cell:grey-zone")
				if roStmts+wrStmts > 0 && mustNotRO {
					sc.Violate("C18", "mode-touched-in-grey-zone", fmt.Sprintf("%s changed the master's mode (%v) in the grey zone: %s", inst, it.stmts, view))
				}
			}
			if mayWrite && ro && !mustRO {
				sc.Cover("cell:made-writable")
			}
			if mustNotRO && !ro {
				sc.Cover("cell:writable-stays")
			}
			if !mustRO && !mustNotRO {
				sc.Cover("cell:ambiguous-few-replicas")
			}
			// the flag follows the last change
			for _, st := range it.stmts {
				_ = st
			}
		})
		s.OnDCS(func(inst, method, path, arg, res string) {
			mu.Lock()
			defer mu.Unlock()
			it := its[inst]
			if it == nil {
				return
			}
			if method == "Get" && strings.HasPrefix(path, "health/") && res != "notfound" && !strings.HasPrefix(res, "error") {
				var h c18Health
				if json.Unmarshal([]byte(strings.TrimSuffix(res, "…")), &h) == nil {
					it.health[strings.TrimPrefix(path, "health/")] = h
				}
			}
		})
		var lowMu sync.Mutex
		lastChange, lastFlag := "", ""
		s.OnZK(func(r fakezk.Rec) {
			if r.Path == NS+"/low_space" && (r.Op == "set" || r.Op == "create") {
				lowMu.Lock()
				lastFlag = r.Data
				lc := lastChange
				lowMu.Unlock()
				// the flag follows the last change: it is written after a successful mode change and says what that change implies
				if isDaemon(s, r.Client) && r.Data != lc {
					sc.Violate("C18", "low-space-flag-written-without-matching-mode-change", fmt.Sprintf("%s wrote low_space=%s while the last successful mode change of the master by the guard implies %q (empty = there was none)", r.Client, r.Data, lc))
				}
			}
		})
		var roFailOn atomic.Bool
		roFailOn.Store(sp.ROFails)
		w.Lock()
		w.Fault = func(c *world.StmtCtx) world.FaultAction {
			if roFailOn.Load() && c.Host == master && (c.Class == "set_ro" || c.Class == "set_ro_nosuper") {
				sc.Cover("read-only-statement-failed")
				return world.FaultAction{Kind: "fail", Errno: 1205}
			}
			return world.FaultAction{}
		}
		w.AfterStmt = append(w.AfterStmt, func(w *world.World, c *world.StmtCtx) {
			if c.Host != master || !strings.HasPrefix(c.Caller, "mysync_") {
				return
			}
			inst := instOfCaller(c.Caller)
			mu.Lock()
			defer mu.Unlock()
			it := its[inst]
			if it == nil {
				return
			}
			switch c.Class {
			case "ping":
				if c.Errno == 0 {
					it.pingOK = true
				}
			case "is_ro":
				if c.Errno == 0 && it.roNote == "" {
					it.roNote = c.Note
				}
			case "semisync_status":
				if c.Errno == 0 && it.wc < 0 {
					fmt.Sscanf(c.Note[strings.Index(c.Note, "w="):], "w=%d", &it.wc)
				}
			case "set_ro", "set_ro_nosuper", "set_writable":
				it.stmts = append(it.stmts, c.Class)
				if c.Errno == 0 {
					lowMu.Lock()
					lastChange = map[bool]string{true: "false", false: "true"}[c.Class == "set_writable"]
					lowMu.Unlock()
				}
			}
		})
		w.Unlock()
		s.Start()
		time.Sleep(32 * time.Second)
		for _, v := range sp.Then {
			roFailOn.Store(false)
			if sp.Terms {
				for try := 0; try < 3; try++ {
					mgr := lockHolder(s)
					s.ExpireSession(mgr)
					if s.WaitUntil(40*time.Second, 500*time.Millisecond, func() bool { h := lockHolder(s); return h != "" && h != mgr }) {
						sc.Cover("guard-handed-to-another-process")
						break
					}
				}
			}
			du(master, v)
			time.Sleep(27 * time.Second)
			if sp.Terms {
				lowMu.Lock()
				lc, lf := lastChange, lastFlag
				lowMu.Unlock()
				if lc != "" && lf != lc {
					sc.Violate("C18", "low-space-flag-does-not-follow-last-change", fmt.Sprintf("27 s after the master's usage became %d%% the last successful mode change implies low_space=%s but the key holds %q (manager %s)", v, lc, lf, lockHolder(s)))
				}
			}
		}
		lowMu.Lock()
		lc, lf := lastChange, lastFlag
		lowMu.Unlock()
		if lc != "" && lf != lc {
			sc.Violate("C18", "low-space-flag-does-not-follow-last-change", fmt.Sprintf("the last successful mode change implies low_space=%s but the key holds %q", lc, lf))
		}
		if lc != "" {
			sc.Cover("low-space-flag-written")
		}
		mu.Lock()
		j := judged
		mu.Unlock()
		sc.Stat("iterations_judged", j)
		sc.Coverf("guard|n=%d|w=%d|keep=%v|m=%d|reps=%v|%v|start=%s", sp.N, sp.W, sp.Keep, sp.MasterDU, sp.RepDU, sp.RepState, sp.StartRO)
		sc.Obs("master usage %d%% then %v, replicas %v %v, wait count %d, keep-super-writable %v, master initially %s: %d manager iterations judged against the table; low_space=%q", sp.MasterDU, sp.Then, sp.RepDU, sp.RepState, sp.W, sp.Keep, sp.StartRO, j, lf)
	})
}

func init() {
	register(&Prop{ID: "C18", Units: func(tier string) int { return tierN(tier, 216, 6000) }, Run: c18Run,
		Floor: func(string) []string {
			return []string{"cell:must-ro", "cell:already-ro", "cell:grey-zone", "cell:made-writable", "cell:writable-stays", "low-space-flag-written"}
		},
		Rule: "scenario = master usage walking {50,80,81,89,90,97}% around both thresholds (and two later values) x 0-3 replicas with seeded usage and state (semi-sync running, stopped, not semi-sync, no disk report) x configured count 1-2 x current read-only / super-read-only state x the super-writable switch; every manager iteration that processes no switch request is judged: the read-only / writable statements reaching the master against the table evaluated on the health records that iteration read and the master state it saw; cells where the two readings of 'remaining replicas cannot satisfy the count' differ (no replica at critical usage but fewer running than the count) are reported as ambiguous and not judged; distinct by the cover tuple"})
}
