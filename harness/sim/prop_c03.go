package sim

import (
	"fmt"
	"math/rand"
	"strings"
	"sync"
	"time"

	"github.com/yandex/mysync/internal/config"
	"github.com/yandex/mysync/verif/fakezk"
	"github.com/yandex/mysync/verif/world"
)

// C03 (cluster part) — only the lock holder acts cluster-wide, and a switchover re-confirms the
// lock after freezing and after catch-up before it promotes. The lock service itself is checked
// by the zkb engine.

type c03Monitor struct {
	mu         sync.Mutex
	sc         *Scen
	lastLock   map[string]string // instance -> last AcquireLock answer ("true"/"false"/"")
	lastState  map[string]string // instance -> main-loop handler entered last
	trueSince  map[string]int    // instance -> number of AcquireLock(true) answers since its last freeze-class statement
	frozeIn    map[string]bool   // instance sent a freeze-class statement in its current attempt
	promoPhase map[string]bool   // instance has begun re-pointing / promoting in its current attempt
	actedSince map[string]string // instance -> first cluster-wide SQL action since its last positive lock answer
	Actions    int
	Promos     int
}

var c03Keys = map[string]bool{"master": true, "active_nodes": true, "switch": true, "last_switch": true, "last_rejected_switch": true}

func newC03Monitor(sc *Scen) *c03Monitor {
	m := &c03Monitor{sc: sc, lastLock: map[string]string{}, lastState: map[string]string{}, trueSince: map[string]int{}, frozeIn: map[string]bool{}, promoPhase: map[string]bool{}, actedSince: map[string]string{}}
	s := sc.S
	s.OnIter(func(inst, state, next string, begin bool) {
		m.mu.Lock()
		defer m.mu.Unlock()
		if begin {
			m.lastState[inst] = state
			m.promoPhase[inst] = false
			m.frozeIn[inst] = false
		}
	})
	s.OnDCS(func(inst, method, path, arg, res string) {
		if method != "AcquireLock" {
			return
		}
		m.mu.Lock()
		defer m.mu.Unlock()
		m.lastLock[inst] = res
		if res == "true" {
			m.trueSince[inst]++
			delete(m.actedSince, inst)
		}
	})
	judge := func(inst, what string) {
		// monitor mutex held
		m.Actions++
		if m.lastLock[inst] != "true" {
			m.sc.Violate("C03", "cluster-wide-action-without-lock:"+strings.Fields(what)[0], fmt.Sprintf("%s did [%s] although the last answer it got about the manager lock was %q (handler %s)", inst, what, m.lastLock[inst], m.lastState[inst]))
			return
		}
		if st := m.lastState[inst]; st != "Manager" && st != "Maintenance" {
			m.sc.Violate("C03", "cluster-wide-action-outside-manager-state:"+strings.Fields(what)[0], fmt.Sprintf("%s did [%s] from handler %s", inst, what, st))
		}
	}
	s.OnZK(func(r fakezk.Rec) {
		p := strings.TrimPrefix(r.Path, NS+"/")
		if !c03Keys[p] || !isDaemon(s, r.Client) {
			return
		}
		if p == "switch" && r.Op == "create" {
			// filing an automatic failover is a manager action too
		}
		m.mu.Lock()
		defer m.mu.Unlock()
		judge(r.Client, "zk "+r.Op+" "+p)
		// the outcome of a request is published on a lock answer obtained after the procedure's own actions: a process
		// that was deposed while it was busy with the servers must find that out before it books anything
		if p == "switch" || p == "last_switch" || p == "last_rejected_switch" {
			if a, acted := m.actedSince[r.Client]; acted {
				m.sc.Violate("C03", "switch-outcome-without-lock-recheck-after-the-procedure", fmt.Sprintf("%s did [zk %s %s] without asking for the lock again after its cluster-wide action [%s]", r.Client, r.Op, p, a))
			}
			m.sc.Cover("switch-bookkeeping-judged")
		}
	})
	s.W.Lock()
	s.W.BeforeStmt = append(s.W.BeforeStmt, func(w *world.World, c *world.StmtCtx) {
		if !c.Mut || !strings.HasPrefix(c.Caller, "mysync_") {
			return
		}
		inst := instOfCaller(c.Caller)
		in := s.InstByName(inst)
		if in == nil {
			return
		}
		m.mu.Lock()
		defer m.mu.Unlock()
		if c.Host != in.Host {
			judge(inst, "sql "+c.Class+" at "+c.Host)
			if _, ok := m.actedSince[inst]; !ok {
				m.actedSince[inst] = "sql " + c.Class + " at " + c.Host
			}
		}
		switch c.Class {
		case "change_source", "reset_replica":
			if _, sw := s.Cached("switch"); sw {
				m.promoPhase[inst] = true // later IO-thread restarts belong to the semi-sync adjustment, not to the freeze
			}
		case "set_ro", "set_ro_nosuper", "stop_io":
			if _, sw := s.Cached("switch"); sw && !m.promoPhase[inst] {
				m.trueSince[inst] = 0
				m.frozeIn[inst] = true
			}
		case "set_writable":
			if c.Host != s.CachedMaster() {
				m.Promos++
				m.sc.Cover("promotion")
				if m.frozeIn[inst] && m.trueSince[inst] < 2 {
					m.sc.Violate("C03", "promotion-without-two-lock-rechecks", fmt.Sprintf("%s makes %s writable after only %d positive lock answers since its last freeze statement (one after freezing and one after catch-up are required)", inst, c.Host, m.trueSince[inst]))
				}
				m.frozeIn[inst] = false
				m.promoPhase[inst] = false
			}
		}
	})
	s.W.Unlock()
	return m
}

type c03Spec struct {
	N     int    `json:"n_ha"`
	Req   string `json:"request"`
	Fault string `json:"fault"` // none hang+expire@freeze expire@catchup expire@random zk_cut_manager kill_manager
	Occ   int    `json:"occurrence"`
}

var c03Faults = []string{"none", "hang+expire@freeze", "expire@catchup", "expire@random", "zk_cut_manager", "kill_manager", "hang+expire@stop_io"}

func c03SimRun(u *Unit) {
	r := rand.New(rand.NewSource(u.Seed))
	sp := c03Spec{N: 3 + r.Intn(2), Req: c01Reqs[u.Idx%len(c01Reqs)], Fault: c03Faults[(u.Idx/len(c01Reqs))%len(c03Faults)], Occ: 1 + r.Intn(3)}
	hosts := append([]string(nil), haNames[:sp.N]...)
	opts := Opts{HA: hosts, Seed: u.Seed, Workload: true, PreConverged: true,
		Cfg: func(h string, c *config.Config) {
			c.FailoverDelay = 5 * time.Second
			c.SlaveCatchUpTimeout = 60 * time.Second
		}}
	u.Scenario(fmt.Sprintf("c03-%d-%s-%s", u.Idx, sp.Req, sp.Fault), sp, opts, func(sc *Scen) {
		s := sc.S
		// the target is far behind in applying: the catch-up wait lasts several seconds
		s.W.Lock()
		tgt := s.W.Servers[hosts[1]]
		ms := s.W.Servers[hosts[0]]
		ms.Executed.AddRange(ms.UUID, 1, 100)
		for _, h := range hosts[1:] {
			s.W.Servers[h].Executed = ms.Executed.Clone()
		}
		tgt.Executed = ms.Executed.Minus(world.MustParse(ms.UUID + ":41-100"))
		tgt.Retrieved = world.MustParse(ms.UUID + ":41-100")
		tgt.ApplyRate = 1
		s.W.Unlock()
		mon := newC03Monitor(sc)
		tr := NewTracker(sc)
		s.Start()
		time.Sleep(17 * time.Second)
		master := hosts[0]
		mgr := lockHolder(s)
		tr.Reset(mgr)
		switch sp.Fault {
		case "hang+expire@freeze":
			tr.Target, tr.Kind = &Boundary{Kind: "sql", Who: mgr, Host: hosts[2], Class: "set_ro", Occ: 1}, "hang+expire"
		case "hang+expire@stop_io":
			tr.Target, tr.Kind = &Boundary{Kind: "sql", Who: mgr, Host: hosts[2], Class: "stop_io", Occ: 1}, "hang+expire"
		case "expire@catchup":
			tr.Target, tr.Kind = &Boundary{Kind: "sql", Who: mgr, Host: hosts[1], Class: "gtid_executed", Occ: 2 + sp.Occ}, "session-expire"
		case "expire@random":
			tr.Target, tr.Kind = &Boundary{Kind: "sql", Who: mgr, Host: hosts[1+r.Intn(sp.N-1)], Class: []string{"replica_status", "ping", "change_source", "offline_off", "stop_replica"}[r.Intn(5)], Occ: sp.Occ}, "session-expire"
		}
		switch sp.Req {
		case "to":
			fileSwitch(sc, "", hosts[1], "manual", "switchover", "operator")
		case "from":
			fileSwitch(sc, master, "", "manual", "switchover", "operator")
		case "manual_failover":
			fileSwitch(sc, master, "", "manual", "failover", "operator")
		case "auto_crash":
			s.W.Crash(master)
		case "auto_rofs":
			s.SetROFS(master, true)
		}
		switch sp.Fault {
		case "zk_cut_manager":
			time.Sleep(time.Duration(3+r.Intn(8)) * time.Second)
			if in := s.InstByName(mgr); in != nil {
				s.CutZK(in.Host, true)
				time.Sleep(20 * time.Second)
				s.CutZK(in.Host, false)
			}
		case "kill_manager":
			time.Sleep(time.Duration(3+r.Intn(8)) * time.Second)
			if in := s.InstByName(mgr); in != nil {
				k := s.Kill(in.Host)
				<-k.Done()
				s.StartInst(in.Host, 0)
			}
		}
		time.Sleep(150 * time.Second)
		tr.Stop()
		mon.mu.Lock()
		acts, promos := mon.Actions, mon.Promos
		mon.mu.Unlock()
		if tr.Target != nil && tr.Hit {
			sc.Cover("deposed:" + sp.Fault)
		}
		sc.Stat("cluster_wide_actions_judged", acts)
		sc.Stat("promotions", promos)
		if acts > 0 {
			sc.Coverf("req=%s|n=%d|fault=%s|hit=%v|promos=%d", sp.Req, sp.N, sp.Fault, tr.Hit, min(promos, 2))
		}
		sc.Obs("request %s, fault %s (hit=%v): %d cluster-wide actions judged against the acting instance's last lock answer, %d promotions each preceded by two positive re-checks; master now %q", sp.Req, sp.Fault, tr.Hit, acts, promos, s.Master())
	})
}

func init() {
	register(&Prop{ID: "C03", Units: func(tier string) int { return tierN(tier, 140, 3500) }, Run: c03SimRun,
		Floor: func(string) []string {
			return []string{"promotion", "deposed:hang+expire@freeze", "deposed:expire@catchup", "deposed:expire@random", "deposed:hang+expire@stop_io"}
		},
		Rule: "cluster part: every kind of switch request on 3-4 node clusters whose target needs seconds to catch up, while the manager's session is expired during a hanging freeze statement, during the catch-up polls, at random calls, or the manager is cut off / killed; every mutating statement at a non-local server and every write of master, active_nodes, switch, last_switch, last_rejected_switch is judged against the acting instance's last lock answer at the client boundary and its current handler; every promotion needs two positive lock answers since the last freeze statement; distinct by (request, n, fault, hit, promotions)"})
}
