package sim

import (
	"encoding/json"
	"errors"
	"fmt"
	"sync"
	"time"

	"github.com/yandex/mysync/internal/dcs"
	"github.com/yandex/mysync/verif/fakezk"
	"github.com/yandex/mysync/verif/world"
)

var errCut = errors.New("zk: could not connect to a server (harness: client is cut off)")

// recDCS is the recording, fast-failing decorator around the real zkDCS handed to an App.
// It is the client boundary: it sees lock-cache hits that never reach the server, and it
// answers data calls at once while the instance has no established ZooKeeper connection, so
// that no coordination call ever waits on virtual time while a mysync mutex is held.
type recDCS struct {
	inner dcs.DCS
	zk    *fakezk.Server
	w     *world.World
	name  string // client identity at the fake ZooKeeper
	noRec bool
	// gate, when set, is consulted before every data call; returning an error fails the call
	// without reaching the server (used to inject coordination failures at call boundaries).
	// flight is read-locked for the duration of every inner call and write-locked by the harness
	// while it cuts, resets or expires this instance's ZooKeeper connection, so that no call can
	// pass the "established" check and then sit in the client's queue across the fault.
	flight *sync.RWMutex
	gate   func(method, path string) error
	after  func(method, path, arg, res string)
}

func (d *recDCS) cut() bool { return !d.zk.Established(d.name) }

func short(v any) string { return shortN(v, 4000) }

func shortN(v any, n int) string {
	b, err := json.Marshal(v)
	if err != nil {
		return fmt.Sprint(v)
	}
	if len(b) > n {
		return string(b[:n]) + "…"
	}
	return string(b)
}

func errStr(err error) string {
	switch {
	case err == nil:
		return "ok"
	case errors.Is(err, dcs.ErrNotFound):
		return "notfound"
	case errors.Is(err, dcs.ErrExists):
		return "exists"
	case errors.Is(err, dcs.ErrMalformed):
		return "malformed"
	}
	return "error: " + err.Error()
}

func (d *recDCS) rec(method, path, arg, res string, err error) {
	if d.noRec {
		return
	}
	e := world.Event{Kind: "dcs", Who: d.name, Class: method, Host: path, Arg: arg, Res: res}
	if err != nil && !errors.Is(err, dcs.ErrNotFound) && !errors.Is(err, dcs.ErrExists) && !errors.Is(err, dcs.ErrMalformed) {
		e.Err = 1
	}
	if res == "" {
		e.Res = errStr(err)
	}
	d.w.Log(e)
	if d.after != nil {
		d.after(method, path, arg, e.Res)
	}
}

// pre read-locks the flight lock and decides whether the call may reach the server; the caller
// must call d.post() afterwards in every case.
func (d *recDCS) pre(method, path string) error {
	d.flight.RLock()
	if d.cut() {
		return errCut
	}
	if d.gate != nil {
		return d.gate(method, path)
	}
	return nil
}

func (d *recDCS) post() { d.flight.RUnlock() }

func (d *recDCS) IsConnected() bool { return d.inner.IsConnected() }
func (d *recDCS) WaitConnected(t time.Duration) bool {
	return d.inner.WaitConnected(t)
}
func (d *recDCS) Initialize() {
	if d.pre("Initialize", "") == nil {
		d.inner.Initialize()
	}
	d.post()
}
func (d *recDCS) SetDisconnectCallback(f func() error) { d.inner.SetDisconnectCallback(f) }

func (d *recDCS) AcquireLock(p string) bool {
	if err := d.pre("AcquireLock", p); err != nil {
		d.post()
		d.rec("AcquireLock", p, "", "false", nil)
		return false
	}
	ok := d.inner.AcquireLock(p)
	d.post()
	d.rec("AcquireLock", p, "", fmt.Sprint(ok), nil)
	return ok
}

func (d *recDCS) ReleaseLock(p string) {
	if d.pre("ReleaseLock", p) == nil {
		d.inner.ReleaseLock(p)
	}
	d.post()
	d.rec("ReleaseLock", p, "", "", nil)
}

func (d *recDCS) Create(p string, v any) error {
	err := d.pre("Create", p)
	if err == nil {
		err = d.inner.Create(p, v)
	}
	d.post()
	d.rec("Create", p, short(v), "", err)
	return err
}

func (d *recDCS) CreateEphemeral(p string, v any) error {
	err := d.pre("CreateEphemeral", p)
	if err == nil {
		err = d.inner.CreateEphemeral(p, v)
	}
	d.post()
	d.rec("CreateEphemeral", p, short(v), "", err)
	return err
}

func (d *recDCS) Set(p string, v any) error {
	err := d.pre("Set", p)
	if err == nil {
		err = d.inner.Set(p, v)
	}
	d.post()
	d.rec("Set", p, short(v), "", err)
	return err
}

func (d *recDCS) SetEphemeral(p string, v any) error {
	err := d.pre("SetEphemeral", p)
	if err == nil {
		err = d.inner.SetEphemeral(p, v)
	}
	d.post()
	if len(p) > 7 && p[:7] == "health/" {
		// health records are written every few seconds by every instance; keep the log small
		d.rec("SetEphemeral", p, "", "", err)
	} else {
		d.rec("SetEphemeral", p, short(v), "", err)
	}
	return err
}

func (d *recDCS) Get(p string, dest any) error {
	err := d.pre("Get", p)
	if err == nil {
		err = d.inner.Get(p, dest)
	}
	d.post()
	if err == nil {
		d.rec("Get", p, "", shortN(dest, 4000), nil)
	} else {
		d.rec("Get", p, "", "", err)
	}
	return err
}

func (d *recDCS) Delete(p string) error {
	err := d.pre("Delete", p)
	if err == nil {
		err = d.inner.Delete(p)
	}
	d.post()
	d.rec("Delete", p, "", "", err)
	return err
}

func (d *recDCS) GetTree(p string) (any, error) {
	if err := d.pre("GetTree", p); err != nil {
		d.post()
		return nil, err
	}
	defer d.post()
	return d.inner.GetTree(p)
}

func (d *recDCS) GetChildren(p string) ([]string, error) {
	err := d.pre("GetChildren", p)
	var ch []string
	if err == nil {
		ch, err = d.inner.GetChildren(p)
	}
	d.post()
	if err == nil {
		d.rec("GetChildren", p, "", short(ch), nil)
	} else {
		d.rec("GetChildren", p, "", "", err)
	}
	return ch, err
}

func (d *recDCS) Close() { d.inner.Close() }
