package sim

import (
	"fmt"
	"sort"
	"strings"
	"sync"
	"time"

	"github.com/yandex/mysync/verif/world"
)

// Boundary is one external call of an instance, identified by a key that is stable across
// re-runs of the same scenario: kind|who|target|class|occurrence since the counters were reset.
type Boundary struct {
	Kind  string `json:"kind"` // sql | dcs
	Who   string `json:"who"`
	Host  string `json:"host"`  // server (sql) or path (dcs)
	Class string `json:"class"` // statement class or DCS method
	Occ   int    `json:"occ"`
	Mut   bool   `json:"mut"`
}

// Key renders the boundary.
func (b Boundary) Key() string {
	return fmt.Sprintf("%s|%s|%s|%s|%d", b.Kind, b.Who, b.Host, b.Class, b.Occ)
}

// PhaseClass groups boundaries for coverage accounting.
func (b Boundary) PhaseClass() string {
	if b.Kind == "dcs" {
		p := b.Host
		if i := strings.Index(p, "/"); i > 0 {
			p = p[:i]
		}
		return "dcs:" + b.Class + ":" + p
	}
	return "sql:" + b.Class
}

// Tracker counts occurrences of calls per key from the moment Reset is called and can both
// record boundaries and inject one fault at a chosen boundary.
type Tracker struct {
	mu     sync.Mutex
	sc     *Scen
	active bool
	who    map[string]bool // instances whose calls are tracked (nil = all)
	occ    map[string]int
	Seen   []Boundary

	Target *Boundary // boundary at which the fault is injected
	Kind   string    // fail hang delay server-dies-before server-dies-after kill-after session-expire dcs-fail
	Hit    bool
	// ReturnHost: for the kind old-master-returns-after, the crashed server that comes back right after the boundary
	ReturnHost string
	OnHit      func() // extra action at the hit (outside mutexes where possible)
	// OnInject is told about the injection at the very moment it happens. For SQL boundaries it runs
	// under the world mutex (w is non-nil) and must not lock the world again; for kill-after it runs
	// after the statement took effect.
	OnInject func(b Boundary, kind string, w *world.World)
}

// NewTracker installs the hooks; it records nothing until Reset.
func NewTracker(sc *Scen) *Tracker {
	t := &Tracker{sc: sc, occ: map[string]int{}}
	s := sc.S
	prevFault := s.W.Fault
	s.W.Fault = func(c *world.StmtCtx) world.FaultAction {
		if fa, ok := t.sql(c); ok {
			return fa
		}
		if prevFault != nil {
			return prevFault(c)
		}
		return world.FaultAction{}
	}
	s.DCSGate = func(inst, method, path string) error { return t.dcsBefore(inst, method, path) }
	s.OnDCS(func(inst, method, path, arg, res string) { t.dcsAfter(inst, method, path, res) })
	return t
}

// Reset starts counting occurrences afresh for the given instances (identities at the fakes).
func (t *Tracker) Reset(insts ...string) {
	t.mu.Lock()
	defer t.mu.Unlock()
	t.active = true
	t.occ = map[string]int{}
	t.Seen = nil
	t.who = nil
	if len(insts) > 0 {
		t.who = map[string]bool{}
		for _, i := range insts {
			t.who[i] = true
		}
	}
}

// Stop ends tracking.
func (t *Tracker) Stop() {
	t.mu.Lock()
	t.active = false
	t.mu.Unlock()
}

func (t *Tracker) tracked(inst string) bool {
	return t.active && (t.who == nil || t.who[inst])
}

func instOfCaller(caller string) string { return strings.TrimPrefix(caller, "mysync_") }

// sql is called under the world mutex.
func (t *Tracker) sql(c *world.StmtCtx) (world.FaultAction, bool) {
	inst := instOfCaller(c.Caller)
	t.mu.Lock()
	defer t.mu.Unlock()
	if !t.tracked(inst) || c.Class == "set_lock_timeout" {
		return world.FaultAction{}, false
	}
	k := "sql|" + inst + "|" + c.Host + "|" + c.Class
	t.occ[k]++
	b := Boundary{Kind: "sql", Who: inst, Host: c.Host, Class: c.Class, Occ: t.occ[k], Mut: c.Mut}
	t.Seen = append(t.Seen, b)
	if t.Target == nil || t.Hit || t.Target.Key() != b.Key() {
		return world.FaultAction{}, false
	}
	t.Hit = true
	s := t.sc.S
	host := c.Host
	s.W.LogLocked(world.Event{Kind: "world", Who: "harness", Host: host, Class: "inject:" + t.Kind, Arg: b.Key()})
	onInject := t.OnInject
	kindNow := t.Kind
	notify := func(w *world.World) {
		if onInject != nil {
			onInject(b, kindNow, w)
		}
	}
	if kindNow != "kill-after" && kindNow != "server-dies-after" {
		// the monitor mutexes are ordered after the world mutex, the tracker's mutex is a leaf: release it first
		t.mu.Unlock()
		notify(s.W)
		t.mu.Lock()
	}
	switch t.Kind {
	case "fail":
		return world.FaultAction{Kind: "fail", Errno: 1105}, true
	case "hang":
		return world.FaultAction{Kind: "hang"}, true
	case "hang+expire":
		// the statement hangs to the caller's deadline while the caller's session expires
		go s.ExpireSession(inst)
		return world.FaultAction{Kind: "hang"}, true
	case "delay":
		return world.FaultAction{Kind: "delay", Delay: 7 * time.Second}, true
	case "server-dies-before":
		return world.FaultAction{Before: func(w *world.World) { world.CloseLater(w.CrashLockedExported(host)) }}, true
	case "server-dies-after":
		return world.FaultAction{After: func(w *world.World) { world.CloseLater(w.CrashLockedExported(host)) }, DropReply: true}, true
	case "old-master-returns-after":
		back := t.ReturnHost
		// the IO threads that kept retrying reconnect at once and fetch what the returned server has
		return world.FaultAction{After: func(w *world.World) { w.RestartLockedExported(back); w.StepLocked() }}, true
	case "kill-after":
		in := s.InstByName(inst)
		return world.FaultAction{After: func(w *world.World) { s.KillLocked(in); notify(w) }, DropReply: true}, true
	case "session-expire":
		return world.FaultAction{After: func(w *world.World) {
			go s.ExpireSession(inst)
		}, Kind: "delay", Delay: 10 * time.Millisecond}, true
	case "zk-outage":
		return world.FaultAction{After: func(w *world.World) {
			go t.outage(inst)
		}, Kind: "delay", Delay: 10 * time.Millisecond}, true
	}
	return world.FaultAction{}, false
}

// outage: every daemon loses the coordination service; it comes back for the instance that was the manager after 25 s
// and for the others 35 s later - the same process is the next manager.
func (t *Tracker) outage(inst string) {
	s := t.sc.S
	in := s.InstByName(inst)
	if in == nil {
		return
	}
	for _, h := range s.AllHosts() {
		s.CutZK(h, true)
	}
	time.Sleep(25 * time.Second)
	s.CutZK(in.Host, false)
	time.Sleep(35 * time.Second)
	for _, h := range s.AllHosts() {
		if h != in.Host {
			s.CutZK(h, false)
		}
	}
}

func (t *Tracker) dcsBefore(inst, method, path string) error {
	t.mu.Lock()
	if !t.tracked(inst) || method == "Initialize" {
		t.mu.Unlock()
		return nil
	}
	k := "dcs|" + inst + "|" + path + "|" + method
	t.occ[k]++
	b := Boundary{Kind: "dcs", Who: inst, Host: path, Class: method, Occ: t.occ[k], Mut: method != "Get" && method != "GetChildren" && method != "AcquireLock"}
	t.Seen = append(t.Seen, b)
	if t.Target == nil || t.Hit || t.Target.Key() != b.Key() || t.Kind != "dcs-fail" {
		t.mu.Unlock()
		return nil
	}
	t.Hit = true
	onInject := t.OnInject
	t.mu.Unlock() // never hold the tracker's mutex while taking the world's (sql() runs under the world mutex)
	if onInject != nil {
		onInject(b, "dcs-fail", nil)
	}
	t.sc.S.W.Log(world.Event{Kind: "world", Who: "harness", Host: path, Class: "inject:dcs-fail", Arg: b.Key()})
	return fmt.Errorf("zk: injected failure of %s %s", method, path)
}

func (t *Tracker) dcsAfter(inst, method, path, res string) {
	t.mu.Lock()
	if !t.tracked(inst) || t.Target == nil || t.Hit || t.Target.Kind != "dcs" || t.Kind == "dcs-fail" {
		t.mu.Unlock()
		return
	}
	k := "dcs|" + inst + "|" + path + "|" + method
	if t.Target.Key() != fmt.Sprintf("%s|%d", k, t.occ[k]) {
		t.mu.Unlock()
		return
	}
	t.Hit = true
	kind := t.Kind
	onInject := t.OnInject
	tb := *t.Target
	t.mu.Unlock()
	s := t.sc.S
	s.W.Log(world.Event{Kind: "world", Who: "harness", Host: path, Class: "inject:" + kind, Arg: t.Target.Key()})
	switch kind {
	case "kill-after":
		if in := s.InstByName(inst); in != nil {
			s.Kill(in.Host)
		}
		if onInject != nil {
			onInject(tb, kind, nil)
		}
	case "session-expire":
		s.ExpireSession(inst)
	case "zk-outage":
		go t.outage(inst)
	}
	if t.OnHit != nil {
		t.OnHit()
	}
}

// Boundaries returns the distinct boundaries seen, sorted by key, optionally filtered.
func (t *Tracker) Boundaries(filter func(Boundary) bool) []Boundary {
	t.mu.Lock()
	defer t.mu.Unlock()
	seen := map[string]bool{}
	var out []Boundary
	for _, b := range t.Seen {
		if seen[b.Key()] || (filter != nil && !filter(b)) {
			continue
		}
		seen[b.Key()] = true
		out = append(out, b)
	}
	sort.Slice(out, func(i, j int) bool { return out[i].Key() < out[j].Key() })
	return out
}

// OrderedBoundaries returns the distinct boundaries in the order they were first seen.
func (t *Tracker) OrderedBoundaries(filter func(Boundary) bool) []Boundary {
	t.mu.Lock()
	defer t.mu.Unlock()
	seen := map[string]bool{}
	var out []Boundary
	for _, b := range t.Seen {
		if seen[b.Key()] || (filter != nil && !filter(b)) {
			continue
		}
		seen[b.Key()] = true
		out = append(out, b)
	}
	return out
}
