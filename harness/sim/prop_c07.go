package sim

import (
	"encoding/json"
	"fmt"
	"math/rand"
	"strings"
	"sync"
	"time"

	"github.com/yandex/mysync/internal/config"
	"github.com/yandex/mysync/verif/fakezk"
	"github.com/yandex/mysync/verif/world"
)

// C07 — switchover is resumable after a manager crash (or session loss) at any external call.

type c07Shape struct {
	N        int    `json:"n_ha"`
	W        int    `json:"wait_count"`
	Req      string `json:"request"`
	Force    bool   `json:"force_switchover"`
	MgrOn    string `json:"manager_on"` // master | replica
	ToIdx    int    `json:"to_idx"`
	TailHist bool   `json:"replica_with_unapplied_tail"`
	Prio     bool   `json:"master_has_the_highest_priority"`
	OneTry   bool   `json:"switchover_max_attempts_1"` // legal: a request gets one counted attempt; an interrupted one is not a counted one
}

type c07Fault struct {
	B         Boundary `json:"boundary"`
	Kind      string   `json:"kind"`      // kill-after | session-expire | zk-outage
	Successor string   `json:"successor"` // same-host | other-host (kill-after only)
}

func c07Gen(seed int64, idx int) c07Shape {
	r := rand.New(rand.NewSource(seed))
	sh := c07Shape{Req: c01Reqs[idx%len(c01Reqs)]}
	sh.N = 2 + r.Intn(3)
	sh.W = 1 + r.Intn(2)
	sh.Force = r.Intn(3) == 0
	sh.MgrOn = []string{"master", "replica"}[r.Intn(2)]
	sh.ToIdx = 1 + r.Intn(sh.N-1)
	sh.TailHist = r.Intn(3) == 0
	sh.OneTry = (idx/len(c01Reqs))%4 == 1
	return sh
}

func lockHolder(s *Sim) string {
	v, ok := s.ZK.Get(NS + "/manager")
	if !ok {
		return ""
	}
	var lo struct{ Hostname string }
	_ = json.Unmarshal([]byte(v), &lo)
	return lo.Hostname
}

func c07Scenario(u *Unit, name string, sh c07Shape, fault *c07Fault) (*Tracker, *ScenResult) {
	hosts := append([]string(nil), haNames[:sh.N]...)
	first := hosts[0]
	if sh.MgrOn == "replica" {
		first = hosts[len(hosts)-1]
	}
	opts := Opts{HA: hosts, Seed: u.Seed, Workload: true, PreConverged: true, ResetupTool: true, FirstDaemon: first,
		Cfg: func(h string, c *config.Config) {
			c.RplSemiSyncMasterWaitForSlaveCount = sh.W
			c.ForceSwitchover = sh.Force
			c.FailoverDelay = 5 * time.Second
			c.SlaveCatchUpTimeout = 60 * time.Second
			if sh.OneTry {
				c.SwitchoverMaxAttempts = 1
			}
		}}
	spec := map[string]any{"shape": sh}
	if fault != nil {
		spec["fault"] = fault
	}
	var tr *Tracker
	res := u.Scenario(name, spec, opts, func(sc *Scen) {
		s := sc.S
		if sh.TailHist {
			s.W.Lock()
			r := s.W.Servers[hosts[1]]
			r.ApplyRate = 2
			s.W.Unlock()
		}
		newDualAck(sc, "C07")
		newFromHostMonitor(sc)
		newRequestIdentityMonitor(sc)
		tr = NewTracker(sc)
		if fault != nil {
			tr.Target, tr.Kind = &fault.B, fault.Kind
		}
		s.Start()
		if sh.Prio {
			// the preferred master: it wins every priority choice it takes part in
			for i, h := range hosts {
				s.ZK.Put("operator", NS+"/ha_nodes/"+h, fmt.Sprintf(`{"priority":%d}`, map[bool]int{true: 10, false: 5 - i}[i == 0]))
			}
		}
		time.Sleep(17 * time.Second)
		master := hosts[0]
		mgr := lockHolder(s)
		if mgr == "" {
			sc.Inconclusive("no manager 17 s after start")
			return
		}
		var killedHost string
		if fault != nil && fault.Kind == "kill-after" {
			tr.OnHit = nil
		}
		tr.Reset(mgr)
		switch sh.Req {
		case "to":
			fileSwitch(sc, "", hosts[sh.ToIdx], "manual", "switchover", "operator")
		case "from":
			fileSwitch(sc, master, "", "manual", "switchover", "operator")
		case "manual_failover":
			fileSwitch(sc, master, "", "manual", "failover", "operator")
		case "auto_crash":
			s.W.Crash(master)
		case "auto_rofs":
			s.SetROFS(master, true)
		}
		// wait for the fault to hit (or, in the baseline, for the request to finish)
		hitAt := time.Time{}
		deadline := time.Now().Add(4 * time.Minute)
		seenSwitch := false
		for time.Now().Before(deadline) {
			time.Sleep(500 * time.Millisecond)
			if _, p := s.Cached("switch"); p {
				seenSwitch = true
			}
			if fault != nil && tr.Hit {
				hitAt = time.Now()
				break
			}
			if fault == nil && seenSwitch {
				if _, p := s.Cached("switch"); !p {
					break
				}
			}
		}
		tr.Stop()
		successor := ""
		if fault != nil && tr.Hit {
			in := s.InstByName(mgr)
			killedHost = in.Host
			if fault.Kind == "kill-after" {
				<-in.Done() // the zombie's goroutines have all returned
				if fault.Successor == "same-host" {
					s.O.Cfg = func(h string, c *config.Config) {
						opts.Cfg(h, c)
						if h == killedHost {
							c.TickInterval = time.Second
						}
					}
					s.StartInst(killedHost, 0)
				} else {
					// another host takes over; the dead daemon comes back only after that
					s.WaitUntil(2*time.Minute, 500*time.Millisecond, func() bool { h := lockHolder(s); return h != "" && h != mgr })
					s.StartInst(killedHost, 0)
				}
			}
			if fault.Kind == "zk-outage" {
				time.Sleep(62 * time.Second) // the outage: 25 s for the manager, 60 s for the others
			}
			s.WaitUntil(2*time.Minute, 500*time.Millisecond, func() bool {
				h := lockHolder(s)
				return h != "" && (h != mgr || fault.Kind == "session-expire" || fault.Kind == "zk-outage" || fault.Kind == "dcs-fail")
			})
			successor = lockHolder(s)
		}
		if sh.Req == "auto_crash" {
			// with three or more nodes the survivors can finish the failover on their own: a recorded, writable master
			// must exist before the crashed server returns (with two nodes the published list cannot shrink while the
			// recorded master is dead; that shape is judged after healing only)
			preOK := s.WaitUntil(90*time.Second, time.Second, func() bool {
				m := s.Master()
				if m == "" || m == master {
					return false
				}
				x := s.W.Snapshot()[m]
				_, pend := s.Cached("switch")
				return x != nil && x.Up && !x.ReadOnly && !pend
			})
			if !preOK && sh.N >= 3 && fault != nil && tr.Hit {
				sc.Violate("C07", "failover-not-finished-by-the-survivors", fmt.Sprintf("90 s after the successor took over there is no recorded writable master although %d healthy replicas survive (request %s, fault %v, successor %s, recorded master %q, active=%v)", sh.N-1, sh.Req, fault, successor, s.Master(), s.ActiveNodes()), s.W.Describe())
			}
			if preOK {
				sc.Cover("failover-finished-before-heal")
			}
			// the crashed server returns later (healing); what is judged below is the state after that
			s.W.Restart(master)
		}
		if sh.Req == "auto_rofs" {
			time.Sleep(60 * time.Second)
			s.SetROFS(master, false)
		}
		// bounded convergence after the successor started
		ok := false
		end := time.Now().Add(c02Bound)
		for time.Now().Before(end) {
			if waitConverged(sc, time.Until(end)) {
				time.Sleep(30 * time.Second)
				if _, pending := s.Cached("switch"); !pending && s.CheckCanonical(nil).OK && len(s.ActiveNodes()) == len(hosts) {
					ok = true
					break
				}
			}
		}
		can := s.CheckCanonical(nil)
		_, pending := s.Cached("switch")
		fk, fc, succKind := "none", "none", "none"
		if fault != nil {
			fk, fc = fault.Kind, fault.B.PhaseClass()
			if !tr.Hit {
				fk = "not-hit"
				sc.Stat("fault_not_hit", 1)
			} else {
				in := s.InstByName(successor)
				switch {
				case fault.Kind == "session-expire":
					succKind = "session-loss"
				case fault.Kind == "zk-outage":
					succKind = "after-outage"
				case fault.Kind == "dcs-fail":
					succKind = "same-manager"
				case in != nil && in.Host == killedHost:
					succKind = "same-host"
				default:
					succKind = "other-host"
				}
				sc.Cover("fault:" + fault.Kind)
				sc.Cover("successor:" + succKind)
				sc.Cover("phase:" + fc)
			}
		}
		if !ok {
			what := can.Why
			if pending {
				what += "; switch request still pending"
			}
			sig := "no-recovery-after-manager-loss:" + can.Code
			if pending {
				sig = "request-still-pending-after-manager-loss"
			}
			if fault == nil || !tr.Hit {
				sig = "no-convergence-without-fault:" + can.Code
			}
			sc.Violate("C07", sig, fmt.Sprintf("%.0f virtual minutes after the successor manager started the cluster is not canonical: %s (request %s, fault %v, successor %s, active=%v)",
				c02Bound.Minutes(), what, sh.Req, fault, successor, s.ActiveNodes()), s.W.Describe())
		}
		if can.Master != "" {
			ackedLoss(sc, "C07", can.Master)
		}
		_ = hitAt
		if fault != nil && tr.Hit {
			sc.Coverf("req=%s|n=%d|mgr=%s|force=%v|fault=%s|at=%s|succ=%s", sh.Req, sh.N, sh.MgrOn, sh.Force, fk, fc, succKind)
		}
		last, _ := s.Cached("last_switch")
		rej, _ := s.Cached("last_rejected_switch")
		sc.Obs("request=%s manager=%s fault=%v hit=%v successor=%s(%s): converged=%v master %s -> %s, acked=%d, last_switch ok=%v rejected=%v",
			sh.Req, mgr, fault, tr.Hit, successor, succKind, ok, master, can.Master, ackedBetween(sc, 0, 1e12), strings.Contains(last, `"ok":true`), rej != "")
	})
	return tr, res
}

// newRequestIdentityMonitor: "the next manager finishes or rejects THE pending request" - a request is identified by
// (initiated_by, initiated_at) (that is how `mysync switch --wait` finds its outcome in last_switch, and what
// switchover_timeout is counted from); while it sits in the switch key no daemon may rewrite that identity, and the
// terminal record a daemon writes must carry the identity of the request that was pending.
func newRequestIdentityMonitor(sc *Scen) {
	s := sc.S
	var mu sync.Mutex
	pendID, pendBy := "", ""
	s.OnZK(func(r fakezk.Rec) {
		key := strings.TrimPrefix(r.Path, NS+"/")
		if key != "switch" && key != "last_switch" && key != "last_rejected_switch" {
			return
		}
		mu.Lock()
		defer mu.Unlock()
		if r.Op == "delete" {
			if key == "switch" {
				pendID, pendBy = "", ""
			}
			return
		}
		if r.Op != "create" && r.Op != "set" {
			return
		}
		var rec swRec
		if json.Unmarshal([]byte(r.Data), &rec) != nil {
			return
		}
		if key == "switch" {
			if r.Op == "set" && pendID != "" && isDaemon(s, r.Client) && rec.InitiatedBy == pendBy && rec.id() != pendID {
				sc.Violate("C07", "pending-request-changed-its-identity", fmt.Sprintf("%s rewrote the pending request %s as %s (started_by %s, run_count %d): its age and the identity its initiator waits for start again", r.Client, pendID, rec.id(), rec.StartedBy, rec.RunCount))
			}
			if pendID != "" && rec.id() == pendID && isDaemon(s, r.Client) {
				sc.Cover("pending-request-rewritten-with-its-identity-kept")
			}
			pendID, pendBy = rec.id(), rec.InitiatedBy
			return
		}
		// a terminal record written while a request is pending is the outcome of that request
		if pendID != "" && isDaemon(s, r.Client) && rec.Result != nil && rec.InitiatedBy == pendBy && rec.id() != pendID {
			sc.Violate("C07", "outcome-recorded-under-another-identity", fmt.Sprintf("%s wrote %s for %s while the pending request is %s", r.Client, key, rec.id(), pendID))
		}
	})
}

// newFromHostMonitor judges C14's cluster-level clause: a request that moves the master away from a host is never
// recorded as succeeded with the master on that very host (whoever resumed it, from whatever half-done state).
func newFromHostMonitor(sc *Scen) {
	s := sc.S
	// "the highest-priority candidate whenever its lag is within the bound", at the moment it becomes observable: when a
	// request without a target promotes X, no frozen member of the list other than the from-host that is at least as
	// advanced as X (lag zero with respect to it) has a higher configured priority
	s.W.Lock()
	s.W.BeforeStmt = append(s.W.BeforeStmt, func(w *world.World, c *world.StmtCtx) {
		if c.Class != "set_writable" || c.Host == s.CachedMaster() {
			return
		}
		v, ok := s.Cached("switch")
		var rec swRec
		if !ok || json.Unmarshal([]byte(v), &rec) != nil || rec.To != "" || rec.From == "" {
			return
		}
		prio := func(h string) int {
			var nc struct {
				Priority int `json:"priority"`
			}
			x, _ := s.Cached("ha_nodes/" + h)
			_ = json.Unmarshal([]byte(x), &nc)
			return nc.Priority
		}
		x := w.Servers[c.Host]
		for _, h := range s.ActiveNodesCached() {
			y := w.Servers[h]
			if h == c.Host || h == rec.From || y == nil || !y.Up || !y.ReadOnly {
				continue
			}
			if prio(h) > prio(c.Host) && x.Executed.SubsetOf(y.Executed) {
				sc.Violate("C14", "higher-priority-candidate-passed-over", fmt.Sprintf("%s promotes %s (priority %d) for the request away from %s although the frozen member %s (priority %d) holds everything %s has", c.Caller, c.Host, prio(c.Host), rec.From, h, prio(h), c.Host), w.DescribeLocked())
			}
		}
		sc.Cover("priority-choice-judged-at-promotion")
	})
	s.W.Unlock()
	s.OnZK(func(r fakezk.Rec) {
		if r.Path != NS+"/last_switch" || (r.Op != "create" && r.Op != "set") {
			return
		}
		var rec swRec
		if json.Unmarshal([]byte(r.Data), &rec) != nil || rec.Result == nil || !rec.Result.Ok || rec.From == "" {
			return
		}
		sc.Cover("switch-from-recorded-as-succeeded")
		if m := s.CachedMaster(); m == rec.From {
			sc.Violate("C14", "switch-from-ends-on-the-from-host", fmt.Sprintf("%s recorded the request of %s to move the master away from %s as succeeded while the recorded master is %s", r.Client, rec.InitiatedBy, rec.From, m))
		}
	})
}

// c14Run is the cluster part of C14: switch --from requests on a cluster whose master has the highest priority, with
// the manager dying or losing its session at the calls from the move of the master key onwards - the successor resumes
// the request while the from-host already is an ordinary, preferred replica.
func c14Run(u *Unit) {
	sh := c07Gen(u.Seed, u.Idx)
	sh.Req, sh.Prio, sh.TailHist = "from", true, false
	if sh.N < 3 {
		sh.N = 3
	}
	c07Faulted(u, sh, fmt.Sprintf("c14-%d-from", u.Idx), func(all []Boundary) int {
		for i, b := range all {
			if b.Kind == "dcs" && b.Host == "master" && b.Class == "Set" {
				return i
			}
		}
		return -1
	}, tierN(u.Job.Tier, 9, 1000), 6)
	// ... and with one read of a host's priority failing inside the position collection (the attempt must not go on
	// with a guessed priority)
	base := fmt.Sprintf("c14-%d-from-prio", u.Idx)
	tr, _ := c07Scenario(u, base+"-baseline", sh, nil)
	if tr == nil {
		return
	}
	n := 0
	for _, b := range tr.OrderedBoundaries(func(b Boundary) bool {
		return b.Kind == "dcs" && b.Class == "Get" && strings.HasPrefix(b.Host, "ha_nodes/")
	}) {
		if n >= tierN(u.Job.Tier, 6, 40) {
			break
		}
		f := c07Fault{b, "dcs-fail", ""}
		c07Scenario(u, fmt.Sprintf("%s-f%d-dcs-fail-%s", base, n, strings.ReplaceAll(b.Key(), "|", "_")), sh, &f)
		n++
	}
}

func c07Run(u *Unit) {
	sh := c07Gen(u.Seed, u.Idx)
	c07Faulted(u, sh, fmt.Sprintf("c07-%d-%s", u.Idx, sh.Req), nil, tierN(u.Job.Tier, 18, 1000), 10)
}

// c07Faulted runs the fault-free baseline of a shape and then one scenario per sampled (call, fault kind) from the
// call chosen by from (default: the manager's first write of the request) onwards.
func c07Faulted(u *Unit, sh c07Shape, base string, from func([]Boundary) int, n, strat int) {
	tr, _ := c07Scenario(u, base+"-baseline", sh, nil)
	if tr == nil {
		return
	}
	all := tr.OrderedBoundaries(nil)
	// the procedure starts with the manager's first write of the request (start record) — for automatic
	// failover with the creation of the request
	start := -1
	for i, b := range all {
		if b.Kind == "dcs" && b.Host == "switch" && (b.Class == "Set" || b.Class == "Create") {
			start = i
			break
		}
	}
	if from != nil {
		start = from(all)
	}
	if start < 0 {
		return
	}
	var bs []Boundary
	for _, b := range all[start:] {
		if b.Kind == "dcs" && (strings.HasPrefix(b.Host, "health/") || strings.HasPrefix(b.Host, "resetup_status") || strings.HasPrefix(b.Host, "timing")) {
			continue
		}
		if b.Kind == "sql" && !b.Mut && b.Occ > 6 {
			continue // periodic probes of the background loops
		}
		bs = append(bs, b)
	}
	var faults []c07Fault
	for _, b := range bs {
		faults = append(faults, c07Fault{b, "kill-after", "other-host"}, c07Fault{b, "kill-after", "same-host"}, c07Fault{b, "session-expire", ""}, c07Fault{b, "zk-outage", ""})
	}
	r := rand.New(rand.NewSource(u.Seed ^ 0x7007))
	r.Shuffle(len(faults), func(i, j int) { faults[i], faults[j] = faults[j], faults[i] })
	if n > len(faults) {
		n = len(faults)
	}
	// stratified: the first ten of the sample are deaths of the manager right after a call that changed something (a
	// statement that changed a server, a write to the coordination service): the states in between two such calls are
	// the ones a successor has to make sense of
	k := 0
	for i := range faults {
		if k >= strat || k >= n {
			break
		}
		if faults[i].Kind == "kill-after" && faults[i].B.Mut {
			faults[k], faults[i] = faults[i], faults[k]
			k++
		}
	}
	// ... and the next four are losses of the coordination service by everybody right after such a call, with the same
	// process as the next manager
	for i, k2 := k, 0; i < len(faults) && k2 < 4 && k < n; i++ {
		if faults[i].Kind == "zk-outage" && faults[i].B.Mut {
			faults[k], faults[i] = faults[i], faults[k]
			k++
			k2++
		}
	}
	for i := 0; i < n; i++ {
		f := faults[i]
		name := fmt.Sprintf("%s-f%d-%s-%s-%s", base, i, f.Kind, f.Successor, strings.ReplaceAll(f.B.Key(), "|", "_"))
		c07Scenario(u, name, sh, &f)
	}
}

func init() {
	register(&Prop{ID: "C14", Units: func(tier string) int { return tierN(tier, 8, 100) }, Run: c14Run,
		Floor: func(string) []string {
			return []string{"fault:kill-after", "fault:dcs-fail", "switch-from-recorded-as-succeeded", "priority-choice-judged-at-promotion"}
		},
		Rule: "cluster part: unit = shape (3-4 HA, wait count, force_switchover, manager location) with the master holding the highest priority and a switch --from request; a fault-free baseline, then one run per sampled (call from the move of the master key onwards x {manager dies with same-host / other-host successor, session loss}): the successor resumes the request while the from-host is an ordinary replica again; every success record of a from-request is judged against the recorded master; distinct by (n, manager location, force, fault, call class, successor kind)"})
	register(&Prop{ID: "C07", Units: func(tier string) int { return tierN(tier, 40, 200) }, Run: c07Run,
		Floor: func(string) []string {
			return []string{"fault:kill-after", "fault:session-expire", "successor:same-host", "successor:other-host", "successor:session-loss", "successor:after-outage"}
		},
		Rule: "unit = shape (2-4 HA, wait count, force_switchover, manager on the master's or a replica's host, slow-applying replica) x request kind; a fault-free baseline records the managing instance's external calls from its first write of the request; then one run per (call x {manager dies right after the call took effect with the same host / another host as successor, manager loses its session and lives on, every daemon loses the coordination service and the same process is the next manager}) — 18 sampled in quick (the first ten deaths and the next four outages among the calls that changed something), all in thorough; clients commit throughout; non-trivial = the fault hit; distinct by (request, n, manager location, force, fault, call class, successor kind)"})
}
