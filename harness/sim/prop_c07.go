package sim

import (
	"encoding/json"
	"fmt"
	"math/rand"
	"strings"
	"time"

	"github.com/yandex/mysync/internal/config"
)

// C07 — switchover is resumable after a manager crash (or session loss) at any external call.

type c07Shape struct {
	N        int    `json:"n_ha"`
	W        int    `json:"wait_count"`
	Req      string `json:"request"`
	Force    bool   `json:"force_switchover"`
	MgrOn    string `json:"manager_on"` // master | replica
	ToIdx    int    `json:"to_idx"`
	TailHist bool   `json:"replica_with_unapplied_tail"`
}

type c07Fault struct {
	B         Boundary `json:"boundary"`
	Kind      string   `json:"kind"`      // kill-after | session-expire
	Successor string   `json:"successor"` // same-host | other-host (kill-after only)
}

func c07Gen(seed int64, idx int) c07Shape {
	r := rand.New(rand.NewSource(seed))
	sh := c07Shape{Req: c01Reqs[idx%len(c01Reqs)]}
	sh.N = 2 + r.Intn(3)
	sh.W = 1 + r.Intn(2)
	sh.Force = r.Intn(3) == 0
	sh.MgrOn = []string{"master", "replica"}[r.Intn(2)]
	sh.ToIdx = 1 + r.Intn(sh.N-1)
	sh.TailHist = r.Intn(3) == 0
	return sh
}

func lockHolder(s *Sim) string {
	v, ok := s.ZK.Get(NS + "/manager")
	if !ok {
		return ""
	}
	var lo struct{ Hostname string }
	_ = json.Unmarshal([]byte(v), &lo)
	return lo.Hostname
}

func c07Scenario(u *Unit, name string, sh c07Shape, fault *c07Fault) (*Tracker, *ScenResult) {
	hosts := append([]string(nil), haNames[:sh.N]...)
	first := hosts[0]
	if sh.MgrOn == "replica" {
		first = hosts[len(hosts)-1]
	}
	opts := Opts{HA: hosts, Seed: u.Seed, Workload: true, PreConverged: true, ResetupTool: true, FirstDaemon: first,
		Cfg: func(h string, c *config.Config) {
			c.RplSemiSyncMasterWaitForSlaveCount = sh.W
			c.ForceSwitchover = sh.Force
			c.FailoverDelay = 5 * time.Second
			c.SlaveCatchUpTimeout = 60 * time.Second
		}}
	spec := map[string]any{"shape": sh}
	if fault != nil {
		spec["fault"] = fault
	}
	var tr *Tracker
	res := u.Scenario(name, spec, opts, func(sc *Scen) {
		s := sc.S
		if sh.TailHist {
			s.W.Lock()
			r := s.W.Servers[hosts[1]]
			r.ApplyRate = 2
			s.W.Unlock()
		}
		newDualAck(sc, "C07")
		tr = NewTracker(sc)
		if fault != nil {
			tr.Target, tr.Kind = &fault.B, fault.Kind
		}
		s.Start()
		time.Sleep(17 * time.Second)
		master := hosts[0]
		mgr := lockHolder(s)
		if mgr == "" {
			sc.Inconclusive("no manager 17 s after start")
			return
		}
		var killedHost string
		if fault != nil && fault.Kind == "kill-after" {
			tr.OnHit = nil
		}
		tr.Reset(mgr)
		switch sh.Req {
		case "to":
			fileSwitch(sc, "", hosts[sh.ToIdx], "manual", "switchover", "operator")
		case "from":
			fileSwitch(sc, master, "", "manual", "switchover", "operator")
		case "manual_failover":
			fileSwitch(sc, master, "", "manual", "failover", "operator")
		case "auto_crash":
			s.W.Crash(master)
		case "auto_rofs":
			s.SetROFS(master, true)
		}
		// wait for the fault to hit (or, in the baseline, for the request to finish)
		hitAt := time.Time{}
		deadline := time.Now().Add(4 * time.Minute)
		seenSwitch := false
		for time.Now().Before(deadline) {
			time.Sleep(500 * time.Millisecond)
			if _, p := s.Cached("switch"); p {
				seenSwitch = true
			}
			if fault != nil && tr.Hit {
				hitAt = time.Now()
				break
			}
			if fault == nil && seenSwitch {
				if _, p := s.Cached("switch"); !p {
					break
				}
			}
		}
		tr.Stop()
		successor := ""
		if fault != nil && tr.Hit {
			in := s.InstByName(mgr)
			killedHost = in.Host
			if fault.Kind == "kill-after" {
				<-in.Done() // the zombie's goroutines have all returned
				if fault.Successor == "same-host" {
					s.O.Cfg = func(h string, c *config.Config) {
						opts.Cfg(h, c)
						if h == killedHost {
							c.TickInterval = time.Second
						}
					}
					s.StartInst(killedHost, 0)
				} else {
					// another host takes over; the dead daemon comes back only after that
					s.WaitUntil(2*time.Minute, 500*time.Millisecond, func() bool { h := lockHolder(s); return h != "" && h != mgr })
					s.StartInst(killedHost, 0)
				}
			}
			s.WaitUntil(2*time.Minute, 500*time.Millisecond, func() bool { h := lockHolder(s); return h != "" && (h != mgr || fault.Kind == "session-expire") })
			successor = lockHolder(s)
		}
		if sh.Req == "auto_crash" {
			// with three or more nodes the survivors can finish the failover on their own: a recorded, writable master
			// must exist before the crashed server returns (with two nodes the published list cannot shrink while the
			// recorded master is dead; that shape is judged after healing only)
			preOK := s.WaitUntil(90*time.Second, time.Second, func() bool {
				m := s.Master()
				if m == "" || m == master {
					return false
				}
				x := s.W.Snapshot()[m]
				_, pend := s.Cached("switch")
				return x != nil && x.Up && !x.ReadOnly && !pend
			})
			if !preOK && sh.N >= 3 && fault != nil && tr.Hit {
				sc.Violate("C07", "failover-not-finished-by-the-survivors", fmt.Sprintf("90 s after the successor took over there is no recorded writable master although %d healthy replicas survive (request %s, fault %v, successor %s, recorded master %q, active=%v)", sh.N-1, sh.Req, fault, successor, s.Master(), s.ActiveNodes()), s.W.Describe())
			}
			if preOK {
				sc.Cover("failover-finished-before-heal")
			}
			// the crashed server returns later (healing); what is judged below is the state after that
			s.W.Restart(master)
		}
		if sh.Req == "auto_rofs" {
			time.Sleep(60 * time.Second)
			s.SetROFS(master, false)
		}
		// bounded convergence after the successor started
		ok := false
		end := time.Now().Add(c02Bound)
		for time.Now().Before(end) {
			if waitConverged(sc, time.Until(end)) {
				time.Sleep(30 * time.Second)
				if _, pending := s.Cached("switch"); !pending && s.CheckCanonical(nil).OK && len(s.ActiveNodes()) == len(hosts) {
					ok = true
					break
				}
			}
		}
		can := s.CheckCanonical(nil)
		_, pending := s.Cached("switch")
		fk, fc, succKind := "none", "none", "none"
		if fault != nil {
			fk, fc = fault.Kind, fault.B.PhaseClass()
			if !tr.Hit {
				fk = "not-hit"
				sc.Stat("fault_not_hit", 1)
			} else {
				in := s.InstByName(successor)
				switch {
				case fault.Kind == "session-expire":
					succKind = "session-loss"
				case in != nil && in.Host == killedHost:
					succKind = "same-host"
				default:
					succKind = "other-host"
				}
				sc.Cover("fault:" + fault.Kind)
				sc.Cover("successor:" + succKind)
				sc.Cover("phase:" + fc)
			}
		}
		if !ok {
			what := can.Why
			if pending {
				what += "; switch request still pending"
			}
			sig := "no-recovery-after-manager-loss:" + can.Code
			if pending {
				sig = "request-still-pending-after-manager-loss"
			}
			if fault == nil || !tr.Hit {
				sig = "no-convergence-without-fault:" + can.Code
			}
			sc.Violate("C07", sig, fmt.Sprintf("%.0f virtual minutes after the successor manager started the cluster is not canonical: %s (request %s, fault %v, successor %s, active=%v)",
				c02Bound.Minutes(), what, sh.Req, fault, successor, s.ActiveNodes()), s.W.Describe())
		}
		if can.Master != "" {
			ackedLoss(sc, "C07", can.Master)
		}
		_ = hitAt
		if fault != nil && tr.Hit {
			sc.Coverf("req=%s|n=%d|mgr=%s|force=%v|fault=%s|at=%s|succ=%s", sh.Req, sh.N, sh.MgrOn, sh.Force, fk, fc, succKind)
		}
		last, _ := s.Cached("last_switch")
		rej, _ := s.Cached("last_rejected_switch")
		sc.Obs("request=%s manager=%s fault=%v hit=%v successor=%s(%s): converged=%v master %s -> %s, acked=%d, last_switch ok=%v rejected=%v",
			sh.Req, mgr, fault, tr.Hit, successor, succKind, ok, master, can.Master, ackedBetween(sc, 0, 1e12), strings.Contains(last, `"ok":true`), rej != "")
	})
	return tr, res
}

func c07Run(u *Unit) {
	sh := c07Gen(u.Seed, u.Idx)
	base := fmt.Sprintf("c07-%d-%s", u.Idx, sh.Req)
	tr, _ := c07Scenario(u, base+"-baseline", sh, nil)
	if tr == nil {
		return
	}
	all := tr.OrderedBoundaries(nil)
	// the procedure starts with the manager's first write of the request (start record) — for automatic
	// failover with the creation of the request
	start := -1
	for i, b := range all {
		if b.Kind == "dcs" && b.Host == "switch" && (b.Class == "Set" || b.Class == "Create") {
			start = i
			break
		}
	}
	if start < 0 {
		return
	}
	var bs []Boundary
	for _, b := range all[start:] {
		if b.Kind == "dcs" && (strings.HasPrefix(b.Host, "health/") || strings.HasPrefix(b.Host, "resetup_status") || strings.HasPrefix(b.Host, "timing")) {
			continue
		}
		if b.Kind == "sql" && !b.Mut && b.Occ > 6 {
			continue // periodic probes of the background loops
		}
		bs = append(bs, b)
	}
	var faults []c07Fault
	for _, b := range bs {
		faults = append(faults, c07Fault{b, "kill-after", "other-host"}, c07Fault{b, "kill-after", "same-host"}, c07Fault{b, "session-expire", ""})
	}
	r := rand.New(rand.NewSource(u.Seed ^ 0x7007))
	r.Shuffle(len(faults), func(i, j int) { faults[i], faults[j] = faults[j], faults[i] })
	n := tierN(u.Job.Tier, 16, 1000)
	if n > len(faults) {
		n = len(faults)
	}
	// stratified: the first ten of the sample are deaths of the manager right after a call that changed something (a
	// statement that changed a server, a write to the coordination service): the states in between two such calls are
	// the ones a successor has to make sense of
	k := 0
	for i := range faults {
		if k >= 10 || k >= n {
			break
		}
		if faults[i].Kind == "kill-after" && faults[i].B.Mut {
			faults[k], faults[i] = faults[i], faults[k]
			k++
		}
	}
	for i := 0; i < n; i++ {
		f := faults[i]
		name := fmt.Sprintf("%s-f%d-%s-%s-%s", base, i, f.Kind, f.Successor, strings.ReplaceAll(f.B.Key(), "|", "_"))
		c07Scenario(u, name, sh, &f)
	}
}

func init() {
	register(&Prop{ID: "C07", Units: func(tier string) int { return tierN(tier, 40, 200) }, Run: c07Run,
		Floor: func(string) []string {
			return []string{"fault:kill-after", "fault:session-expire", "successor:same-host", "successor:other-host", "successor:session-loss"}
		},
		Rule: "unit = shape (2-4 HA, wait count, force_switchover, manager on the master's or a replica's host, slow-applying replica) x request kind; a fault-free baseline records the managing instance's external calls from its first write of the request; then one run per (call x {manager dies right after the call took effect with the same host / another host as successor, manager loses its session and lives on}) — 16 sampled in quick (the first ten among the calls that changed something), all in thorough; clients commit throughout; non-trivial = the fault hit; distinct by (request, n, manager location, force, fault, call class, successor kind)"})
}
