package sim

import (
	"encoding/json"
	"fmt"
	"math/rand"
	"sort"
	"strings"
	"sync"
	"time"

	"github.com/yandex/mysync/internal/config"
	"github.com/yandex/mysync/verif/fakezk"
	"github.com/yandex/mysync/verif/world"
)

// C04 — the published active list covers every semi-sync acker (Ia) and matches the master's
// acknowledgement count (Ib); no iteration destroys either; membership rules of the list.

type c04Shape struct {
	N      int    `json:"n_ha"`
	W      int    `json:"wait_count"`
	MFirst bool   `json:"master_first_order"`
	Trans  string `json:"transition"`
	Casc   bool   `json:"cascade"`
}

var c04Trans = []string{"join", "die", "return", "io_broken", "sql_broken", "diverged", "lag_moving", "lag_stalled", "recovery_mark", "turn_cascade", "steady", "partition_return_broken", "partition_return_diverged", "master_restart"}

func c04Gen(seed int64, idx int) c04Shape {
	r := rand.New(rand.NewSource(seed))
	sh := c04Shape{Trans: c04Trans[idx%len(c04Trans)]}
	sh.N = 2 + r.Intn(4)
	sh.W = 1 + r.Intn(3)
	sh.MFirst = r.Intn(2) == 0
	sh.Casc = r.Intn(4) == 0
	if sh.Trans == "return" && (idx/len(c04Trans))%2 == 1 && sh.N < 4 {
		sh.N = 4 // (the baseline of these units is a swap - one member returns while another leaves - with a manager on a third host)
	}
	return sh
}

const c04InactDelay = 10 * time.Second
const c04EnableLag = 100 * 1024 * 1024

type c04Monitor struct {
	markedAt map[string]time.Duration // host -> when its recovery mark was created
	mu       sync.Mutex
	sc       *Scen
	w        int
	ha       []string
	ia, ib   bool
	// the last mutating operation after which a predicate turned false
	iaBroke, ibBroke string
	iaWhy, ibWhy     string
	// per manager instance: predicates at the start of its current manager iteration
	it map[string]*c04Iter
	// ground-truth bookkeeping for the membership rules
	divergedSince map[string]time.Duration
	notReplSince  map[string]time.Duration
	lastOp        string
	faulted       map[string]bool // instances hit by an injected fault in the current iteration
	SemiStmts     int
	ListWrites    int
	Completed     int
	tick          time.Duration
	prevList      []string
	evalSince     map[string]time.Duration // instance|host -> begin of the instance's first list-evaluating iteration with the host away
}

type c04Iter struct {
	ia0, ib0   bool
	masterOK0  bool   // the recorded master was up, writable and online when the iteration began
	masterRec  string // the master's health record as this iteration read it
	pending0   bool
	begin      time.Duration
	pingFailed bool
	pinged     bool
	semiStmts  int
	wrote      bool
	probeFail  map[string]bool // hosts whose probes by this instance failed in this iteration
}

func newC04Monitor(sc *Scen, w int, ha []string) *c04Monitor {
	m := &c04Monitor{sc: sc, w: w, ha: ha, it: map[string]*c04Iter{}, divergedSince: map[string]time.Duration{}, notReplSince: map[string]time.Duration{},
		faulted: map[string]bool{}, tick: 5 * time.Second, evalSince: map[string]time.Duration{}, markedAt: map[string]time.Duration{}}
	s := sc.S
	s.W.Lock()
	s.W.OnChange = append(s.W.OnChange, func(w *world.World) { m.mu.Lock(); m.evalLocked(w); m.mu.Unlock() })
	s.W.AfterStmt = append(s.W.AfterStmt, m.afterStmt)
	s.W.Unlock()
	s.OnZK(func(r fakezk.Rec) {
		if strings.HasPrefix(r.Path, NS+"/recovery/") {
			h := strings.TrimPrefix(r.Path, NS+"/recovery/")
			m.mu.Lock()
			switch r.Op {
			case "create":
				m.markedAt[h] = s.W.Now()
			case "delete":
				delete(m.markedAt, h)
			}
			m.mu.Unlock()
			return
		}
		if r.Path != NS+"/active_nodes" && r.Path != NS+"/master" {
			return
		}
		s.W.Lock()
		m.mu.Lock()
		m.lastOp = fmt.Sprintf("zk %s %s by %s", r.Op, strings.TrimPrefix(r.Path, NS+"/"), r.Client)
		if r.Path == NS+"/active_nodes" {
			m.onListWrite(s.W, r)
		}
		m.evalLocked(s.W)
		m.mu.Unlock()
		s.W.Unlock()
	})
	s.OnIter(m.onIter)
	s.OnDCS(func(inst, method, path, arg, res string) {
		if method != "Get" || path != "health/"+s.CachedMaster() {
			return
		}
		m.mu.Lock()
		if it := m.it[inst]; it != nil {
			it.masterRec = res
		}
		m.mu.Unlock()
	})
	return m
}

func (m *c04Monitor) pending() bool {
	_, sw := m.sc.S.Cached("switch")
	_, mt := m.sc.S.Cached("maintenance")
	return sw || mt
}

func (m *c04Monitor) active() []string {
	v, ok := m.sc.S.Cached("active_nodes")
	if !ok {
		return nil
	}
	var a []string
	_ = json.Unmarshal([]byte(v), &a)
	return a
}

func contains(a []string, x string) bool {
	for _, y := range a {
		if y == x {
			return true
		}
	}
	return false
}

func (m *c04Monitor) managerHost() string {
	v, ok := m.sc.S.Cached("manager")
	if !ok {
		return ""
	}
	var lo struct{ Hostname string }
	_ = json.Unmarshal([]byte(v), &lo)
	if i := strings.Index(lo.Hostname, "#"); i > 0 {
		return lo.Hostname[:i]
	}
	return lo.Hostname
}

// evalLocked recomputes Ia and Ib on ground truth (world and monitor mutex held).
func (m *c04Monitor) evalLocked(w *world.World) {
	master := m.sc.S.CachedMaster()
	A := m.active()
	mgr := m.managerHost()
	now := w.Now()
	ia, iaWhy := true, ""
	cascade := map[string]bool{}
	for _, h := range m.sc.S.CachedChildren("cascade_nodes") {
		cascade[h] = true
	}
	for _, h := range m.ha {
		srv := w.Servers[h]
		if h == master || srv == nil || cascade[h] {
			continue
		}
		reach := srv.Up && (mgr == "" || w.ReachLocked(mgr, h))
		if reach && srv.SSSlave && !contains(A, h) {
			ia, iaWhy = false, fmt.Sprintf("%s has rpl_semi_sync_slave_enabled=1 but is not in the published list %v", h, A)
		}
		// bookkeeping for membership rules
		ms := w.Servers[master]
		if ms != nil {
			div := false
			for u, ivs := range srv.Executed.Minus(ms.Executed) {
				if len(ivs) > 0 && u != ms.UUID {
					div = true
				}
			}
			if div {
				if _, ok := m.divergedSince[h]; !ok {
					m.divergedSince[h] = now
				}
			} else {
				delete(m.divergedSince, h)
			}
		}
		repl := srv.Up && srv.Source == master && srv.IORun && srv.SQLRun && srv.LastIOErrno == 0 && srv.LastSQLErrno == 0 && ms != nil && ms.Up
		if !repl {
			if _, ok := m.notReplSince[h]; !ok {
				m.notReplSince[h] = now
			}
		} else {
			delete(m.notReplSince, h)
			for k := range m.evalSince {
				if strings.HasSuffix(k, "|"+h) {
					delete(m.evalSince, k)
				}
			}
		}
	}
	ib, ibWhy := true, ""
	if ms := w.Servers[master]; ms != nil {
		eff := 0
		if ms.SSMaster {
			eff = ms.WaitCount
		}
		need := len(A) / 2
		if m.w < need {
			need = m.w
		}
		if eff < need {
			ib, ibWhy = false, fmt.Sprintf("master %s waits for %d acknowledgements (plugin on=%v) but the published list %v implies %d", master, eff, ms.SSMaster, A, need)
		}
	}
	if m.ia && !ia {
		m.iaBroke = m.lastOp
	}
	if m.ib && !ib {
		m.ibBroke = m.lastOp
	}
	m.ia, m.ib, m.iaWhy, m.ibWhy = ia, ib, iaWhy, ibWhy
}

func opClass(op string) string {
	f := strings.Fields(op)
	if len(f) >= 2 && f[0] == "sql" {
		return "sql:" + f[1]
	}
	if len(f) >= 3 && f[0] == "zk" {
		return "zk:" + f[1] + ":" + f[2]
	}
	return op
}

func (m *c04Monitor) afterStmt(w *world.World, c *world.StmtCtx) {
	m.mu.Lock()
	defer m.mu.Unlock()
	inst := instOfCaller(c.Caller)
	if c.Mut && c.Errno == 0 {
		m.lastOp = fmt.Sprintf("sql %s at %s by %s", c.Class, c.Host, inst)
	}
	it := m.it[inst]
	if it == nil {
		return
	}
	switch c.Class {
	case "ss_master", "ss_slave", "ss_disable", "ss_wait_count":
		it.semiStmts++
		m.SemiStmts++
	case "ping":
		if c.Host == m.sc.S.CachedMaster() {
			it.pinged = true
			if c.Errno != 0 {
				it.pingFailed = true
			}
		}
	}
	if !c.Mut && c.Errno != 0 {
		if it.probeFail == nil {
			it.probeFail = map[string]bool{}
		}
		it.probeFail[c.Host] = true
	}
}

// MarkFault tells the monitor that the instance's current iteration had an injected fault.
func (m *c04Monitor) MarkFault(inst string) {
	m.mu.Lock()
	m.faulted[inst] = true
	m.mu.Unlock()
}

func (m *c04Monitor) onIter(inst, state, next string, begin bool) {
	if state != "Manager" {
		return
	}
	s := m.sc.S
	s.W.Lock()
	m.mu.Lock()
	defer s.W.Unlock()
	defer m.mu.Unlock()
	m.evalLocked(s.W)
	if begin {
		ms0 := s.W.Servers[s.CachedMaster()]
		m.it[inst] = &c04Iter{ia0: m.ia, ib0: m.ib, pending0: m.pending(), begin: s.W.Now(), masterOK0: ms0 != nil && ms0.Up && !ms0.ReadOnly && !ms0.Offline}
		delete(m.faulted, inst)
		return
	}
	it := m.it[inst]
	delete(m.it, inst)
	if it == nil {
		return
	}
	how := "completed"
	if m.faulted[inst] {
		how = "failed-call"
	}
	m.judgeEnd(s.W, inst, it, how, m.faulted[inst])
}

// judgeEnd applies S1/S2 at the end (or cut point) of an iteration. World and monitor mutex held.
// masterRecordGood: the master's own daemon publishes a good health record (otherwise the manager treats the master as
// failed and leaves the iteration before it gets to the list).
func (m *c04Monitor) masterRecordGood(it *c04Iter) bool {
	if it.masterRec == "" {
		return false
	}
	bad, _, _, parsed := parseHealth(it.masterRec)
	return parsed && !bad
}

func (m *c04Monitor) judgeEnd(w *world.World, inst string, it *c04Iter, how string, faulted bool) {
	pend := it.pending0 || m.pending()
	master := m.sc.S.CachedMaster()
	ms := w.Servers[master]
	if how != "cut" {
		m.Completed++
	}
	if how == "completed" && !faulted && it.wrote {
		// the failure clock of the code is per process and starts at the first iteration that gets as far as evaluating
		// the list while both the manager's probe and the host's own health record (refreshed every 5 s) are bad,
		// i.e. up to one health-check interval after the ground-truth instant; iterations that end before the update
		// (master considered failed, failed calls) do not move it
		for h, since := range m.notReplSince {
			k := inst + "|" + h
			if _, ok := m.evalSince[k]; !ok && it.begin > since+6*time.Second {
				m.evalSince[k] = it.begin
			}
		}
	}
	if pend || ms == nil {
		return
	}
	state := w.DescribeLocked() + fmt.Sprintf("active=%v master=%s", m.active(), master)
	// S2: what held at the beginning holds at the end
	if it.ia0 && !m.ia {
		m.sc.Violate("C04", fmt.Sprintf("S2:Ia-destroyed:%s:after=%s", how, opClass(m.iaBroke)),
			fmt.Sprintf("an iteration of %s (%s) destroyed (a): %s; it held when the iteration began; turned false after [%s]", inst, how, m.iaWhy, m.iaBroke), state)
	}
	if it.ib0 && !m.ib {
		m.sc.Violate("C04", fmt.Sprintf("S2:Ib-destroyed:%s:after=%s", how, opClass(m.ibBroke)),
			fmt.Sprintf("an iteration of %s (%s) destroyed (b): %s; it held when the iteration began; turned false after [%s]", inst, how, m.ibWhy, m.ibBroke), state)
	}
	// S1: a completed, fault-free iteration with the master healthy and writable establishes both
	if how == "completed" && !faulted && ms.Up && !ms.ReadOnly && !ms.Offline && (it.semiStmts > 0 || it.wrote || (it.ia0 && it.ib0) || (it.masterOK0 && m.masterRecordGood(it))) {
		mgr := m.managerHost()
		if mgr != "" && !w.ReachLocked(mgr, master) {
			return
		}
		// the list never contains hosts marked for recovery: a mark that existed when the iteration began is honoured
		// by its end, whether or not the list had to be written
		if _, sw := m.sc.S.Cached("switch"); !sw && m.masterRecordGood(it) {
			// (only iterations that evaluate the list: one that found the master's own record bad ends before that)
			for _, h := range m.sc.S.ActiveNodesCached() {
				if t, marked := m.markedAt[h]; marked && h != master && t < it.begin {
					m.sc.Violate("C04", "S3:recovery-marked-host-in-list-after-iteration", fmt.Sprintf("a completed fault-free iteration of %s that began at %.1fs left %s in the published list %v although it has been marked for recovery since %.1fs", inst, it.begin.Seconds(), h, m.sc.S.ActiveNodesCached(), t.Seconds()))
				}
			}
		}
		if !m.ia {
			m.sc.Violate("C04", "S1:Ia-false-after-completed-iteration", fmt.Sprintf("a completed fault-free iteration of %s left (a) false: %s", inst, m.iaWhy), state)
		}
		if !m.ib {
			m.sc.Violate("C04", "S1:Ib-false-after-completed-iteration", fmt.Sprintf("a completed fault-free iteration of %s left (b) false: %s", inst, m.ibWhy), state)
		}
	}
}

// cut judges the iteration of a manager at the instant it is killed (end = the cut point).
// w is non-nil when the world mutex is already held.
func (m *c04Monitor) cut(inst string, w *world.World) {
	if w == nil {
		w = m.sc.S.W
		w.Lock()
		defer w.Unlock()
	}
	m.mu.Lock()
	defer m.mu.Unlock()
	m.evalLocked(w)
	if it := m.it[inst]; it != nil {
		delete(m.it, inst)
		m.judgeEnd(w, inst, it, "cut", true)
	}
}

// onListWrite checks the membership rules for a value written to active_nodes (world+monitor mutex held).
func (m *c04Monitor) onListWrite(w *world.World, r fakezk.Rec) {
	if r.Op != "set" && r.Op != "create" {
		return
	}
	m.ListWrites++
	var V []string
	if json.Unmarshal([]byte(r.Data), &V) != nil {
		return
	}
	inst := r.Client
	it := m.it[inst]
	if it != nil {
		it.wrote = true
	}
	master := m.sc.S.CachedMaster()
	ms := w.Servers[master]
	now := w.Now()
	cascade := map[string]bool{}
	for _, h := range m.sc.S.CachedChildren("cascade_nodes") {
		cascade[h] = true
	}
	if _, sw := m.sc.S.Cached("switch"); sw {
		return // the switchover procedure rewrites the list under its own rules (C01/C11)
	}
	for _, h := range V {
		if h == master {
			continue
		}
		srv := w.Servers[h]
		if cascade[h] && it != nil {
			m.sc.Violate("C04", "S3:cascade-host-in-list", fmt.Sprintf("%s published %v which contains the cascade replica %s", inst, V, h))
		}
		if _, marked := m.sc.S.Cached("recovery/" + h); marked {
			m.sc.Violate("C04", "S3:recovery-marked-host-in-list", fmt.Sprintf("%s published %v which contains %s, marked for recovery", inst, V, h))
		}
		if srv == nil || ms == nil || it == nil || it.probeFail[h] {
			continue // the rules below presuppose that the manager could see the replica's state in this iteration
		}
		if since, ok := m.divergedSince[h]; ok && since < it.begin {
			m.sc.Violate("C04", "S3:diverged-replica-in-list", fmt.Sprintf("%s published %v which contains %s whose executed set has foreign transactions the master lacks (%s) since %.1fs, before the iteration began at %.1fs",
				inst, V, h, srv.Executed.Minus(ms.Executed).OneLine(), since.Seconds(), it.begin.Seconds()))
		}
		if since, ok := m.notReplSince[h]; ok && ms.Up && m.evalSince[inst+"|"+h] > 0 && it.begin > m.evalSince[inst+"|"+h]+c04InactDelay+m.tick+time.Second {
			m.sc.Violate("C04", "S3:not-replicating-replica-in-list", fmt.Sprintf("%s published %v which contains %s, not replicating from the master since %.1fs (now %.1fs, inactivation delay %v)",
				inst, V, h, since.Seconds(), now.Seconds(), c04InactDelay))
		}
		if !srv.SSSlave && srv.Up && srv.Source == master {
			lag := w.BinlogSizeLocked(ms) - w.ReadPosLocked(srv)
			if lag > c04EnableLag {
				m.sc.Violate("C04", "S3:download-lagging-replica-in-list", fmt.Sprintf("%s published %v which contains %s, not semi-sync and %d bytes behind in download (semi_sync_enable_lag %d)", inst, V, h, lag, c04EnableLag))
			}
		}
	}
	// eviction only while the manager can reach the master
	if it != nil && m.prevList != nil {
		var removed []string
		for _, h := range m.prevList {
			if !contains(V, h) {
				removed = append(removed, h)
			}
		}
		if len(removed) > 0 {
			m.sc.Cover("eviction")
			if mgr := m.managerHost(); mgr != "" && ms != nil && (!ms.Up || !w.ReachLocked(mgr, master)) {
				m.sc.Violate("C04", "S3:eviction-while-the-master-is-unreachable", fmt.Sprintf("%s removed %v from the list at an instant at which it cannot reach the master %s (up=%v)", inst, removed, master, ms.Up))
			}
			if it.pingFailed || !it.pinged {
				m.sc.Violate("C04", "S3:eviction-without-master-ping", fmt.Sprintf("%s removed %v from the list in an iteration in which the master did not answer its ping (pinged=%v failed=%v)", inst, removed, it.pinged, it.pingFailed))
			}
		}
	}
	m.prevList = V
}

func c04Scenario(u *Unit, name string, sh c04Shape, fault *c01Fault) (*Tracker, *ScenResult) {
	hosts := append([]string(nil), haNames[:sh.N]...)
	subject := hosts[len(hosts)-1]
	var casc map[string]string
	if sh.Casc {
		casc = map[string]string{"cas-db9": hosts[0]}
	}
	opts := Opts{HA: hosts, Cascade: casc, Seed: u.Seed, Workload: true, PreConverged: true,
		Cfg: func(h string, c *config.Config) {
			c.RplSemiSyncMasterWaitForSlaveCount = sh.W
			c.MasterFirstAdjustSSOrder = sh.MFirst
			c.InactivationDelay = c04InactDelay
			c.Failover = false
		}}
	if sh.Trans == "return" && fault == nil && sh.N >= 4 && (u.Idx/len(c04Trans))%2 == 1 {
		opts.FirstDaemon = hosts[2] // the manager: neither on the master's host nor on one of the two members that move
	}
	spec := map[string]any{"shape": sh}
	if fault != nil {
		spec["fault"] = fault
	}
	var tr *Tracker
	res := u.Scenario(name, spec, opts, func(sc *Scen) {
		s := sc.S
		// transitions that need a non-default starting point
		switch sh.Trans {
		case "join", "return":
			// subject starts outside the list and not semi-sync
			var a []string
			for _, h := range hosts {
				if h != subject {
					a = append(a, h)
				}
			}
			sort.Strings(a)
			b, _ := json.Marshal(a)
			s.ZK.Put("setup", NS+"/active_nodes", string(b))
			s.W.Lock()
			sub := s.W.Servers[subject]
			sub.SSSlave, sub.SSReg = false, false
			ms := s.W.Servers[hosts[0]]
			need := len(a) / 2
			if sh.W < need {
				need = sh.W
			}
			ms.SSMaster, ms.WaitCount = need > 0, max(need, 1)
			if sh.Trans == "return" {
				sub.Up = false
			}
			s.W.Unlock()
		}
		mon := newC04Monitor(sc, sh.W, hosts)
		mon.prevList = s.ActiveNodes()
		tr = NewTracker(sc)
		if fault != nil {
			tr.Target, tr.Kind = &fault.B, fault.Kind
		}
		tr.OnInject = func(b Boundary, kind string, w *world.World) {
			if kind == "kill-after" {
				mon.cut(b.Who, w)
			} else {
				mon.MarkFault(b.Who)
			}
		}
		s.Start()
		time.Sleep(12 * time.Second)
		mgr := lockHolder(s)
		tr.Reset(mgr)
		// the transition
		switch sh.Trans {
		case "die":
			s.W.Crash(subject)
		case "return":
			if fault == nil && sh.N >= 4 && (u.Idx/len(c04Trans))%2 == 1 {
				// ... while another member leaves in the very same iteration, and the master becomes unreachable for the manager
				// between the join's semi-sync statement and the publish step: as many join as leave, but somebody IS evicted
				other := hosts[1]
				s.W.Lock()
				s.W.AfterStmt = append(s.W.AfterStmt, func(w *world.World, c *world.StmtCtx) {
					if c.Class == "ss_slave" && c.Host == subject && instOfCaller(c.Caller) == mgr && c.Errno == 0 {
						if in := s.InstByName(mgr); in != nil && !w.IsCutLocked(in.Host, hosts[0]) {
							w.CutLocked(in.Host, hosts[0], true)
							mon.MarkFault(mgr) // what follows in this iteration is an interrupted update, not a fault-free one
							sc.Cover("master-lost-between-join-and-publish")
						}
					}
				})
				s.W.Unlock()
				// (a member the operator turns into a cascade replica leaves in the next iteration that evaluates the list -
				// the one in which the returned member joins)
				s.ZK.Remove("operator", NS+"/ha_nodes/"+other)
				s.ZK.Put("operator", NS+"/cascade_nodes/"+other, fmt.Sprintf(`{"stream_from":%q}`, hosts[0]))
				s.W.Restart(subject)
				time.Sleep(10 * time.Second)
				if in := s.InstByName(mgr); in != nil {
					s.W.Cut(in.Host, hosts[0], false)
				}
				break
			}
			s.W.Restart(subject)
		case "io_broken":
			s.W.Manual(subject, "io thread error 2003", func(x *world.Server) { x.LastIOErrno = 2003; x.StickyErr = true })
		case "sql_broken":
			s.W.Manual(subject, "sql thread error 1062", func(x *world.Server) { x.LastSQLErrno = 1062; x.StickyErr = true })
		case "diverged":
			s.W.Manual(subject, "errant transaction", func(x *world.Server) { x.Executed.Add(x.UUID, 1) })
		case "lag_moving":
			s.W.Manual(subject, "download backlog 500MiB draining", func(x *world.Server) {
				x.SSSlave, x.SSReg = false, false
				x.BacklogBytes, x.BacklogDrain = 500<<20, 1<<20
			})
		case "lag_stalled":
			s.W.Manual(subject, "download backlog 500MiB stalled", func(x *world.Server) {
				x.SSSlave, x.SSReg = false, false
				x.BacklogBytes, x.BacklogDrain = 500<<20, 0
			})
		case "partition_return_broken", "partition_return_diverged":
			// the member is unreachable for longer than the inactivation delay (evicted with its semi-sync flag still set,
			// nobody could reach it), then comes back streaming but not eligible for the list
			s.W.Isolate(subject, true)
			if sh.Trans == "partition_return_broken" {
				s.W.Manual(subject, "sql thread error 1062", func(x *world.Server) { x.LastSQLErrno = 1062; x.StickyErr = true })
			} else {
				s.W.Manual(subject, "errant transaction", func(x *world.Server) { x.Executed.Add(x.UUID, 1) })
			}
			go func() {
				time.Sleep(c04InactDelay + 8*time.Second)
				s.W.Isolate(subject, false)
			}()
		case "master_restart":
			// mysqld of the master restarts in place: its non-persisted semi-sync variables are back at OFF while the
			// membership does not change at all
			s.W.Crash(hosts[0])
			time.Sleep(1500 * time.Millisecond)
			s.W.Restart(hosts[0])
		case "recovery_mark":
			// (every other shape: a mark created by hand, with an empty payload - the mark is the key, not its content)
			s.ZK.Put("operator", NS+"/recovery/"+subject, map[bool]string{true: "", false: "null"}[(u.Idx/len(c04Trans))%2 == 1])
		case "turn_cascade":
			s.ZK.Remove("operator", NS+"/ha_nodes/"+subject)
			s.ZK.Put("operator", NS+"/cascade_nodes/"+subject, fmt.Sprintf(`{"stream_from":%q}`, hosts[0]))
		}
		// run the manager through the transition: beyond the inactivation delay plus a few iterations
		end := time.Now().Add(c04InactDelay + 35*time.Second)
		for time.Now().Before(end) {
			time.Sleep(250 * time.Millisecond)
		}
		tr.Stop()
		mon.mu.Lock()
		semi, writes, completed := mon.SemiStmts, mon.ListWrites, mon.Completed
		mon.mu.Unlock()
		fk, fc := "none", "none"
		if fault != nil {
			fk, fc = fault.Kind, fault.B.PhaseClass()
			if !tr.Hit {
				fk = "not-hit"
				sc.Stat("fault_not_hit", 1)
			} else {
				sc.Cover("fault:" + fault.Kind)
			}
		}
		if semi > 0 || writes > 0 {
			sc.Cover("transition:" + sh.Trans)
			sc.Coverf("trans=%s|n=%d|w=%d|mfirst=%v|fault=%s|at=%s", sh.Trans, sh.N, sh.W, sh.MFirst, fk, fc)
		}
		sc.Stat("semi_sync_statements", semi)
		sc.Stat("list_writes", writes)
		sc.Stat("completed_iterations", completed)
		sc.Obs("transition=%s on %s (n=%d w=%d master-first=%v) fault=%v hit=%v: %d semi-sync statements, %d list writes, %d completed manager iterations; final list %v",
			sh.Trans, subject, sh.N, sh.W, sh.MFirst, fault, tr.Hit, semi, writes, completed, s.ActiveNodes())
	})
	return tr, res
}

func c04Run(u *Unit) {
	sh := c04Gen(u.Seed, u.Idx)
	base := fmt.Sprintf("c04-%d-%s", u.Idx, sh.Trans)
	tr, _ := c04Scenario(u, base+"-baseline", sh, nil)
	if tr == nil {
		return
	}
	// boundaries of the update: the manager's calls in iterations that issued semi-sync statements or wrote the list;
	// approximated by all mutating calls plus the reads/pings next to them
	bs := tr.Boundaries(func(b Boundary) bool {
		if b.Kind == "dcs" {
			return b.Host == "active_nodes" || strings.HasPrefix(b.Host, "recovery") || b.Host == "master"
		}
		switch b.Class {
		case "ss_master", "ss_slave", "ss_disable", "ss_wait_count", "stop_io", "start_io", "stop_replica", "start_replica", "set_flush", "set_sync_binlog", "binlogs", "uuid":
			return true
		case "ping", "gtid_executed":
			return b.Occ <= 6
		}
		return false
	})
	var faults []c01Fault
	for _, b := range bs {
		faults = append(faults, c01Fault{b, "kill-after"})
		if b.Kind == "sql" {
			faults = append(faults, c01Fault{b, "fail"})
		} else {
			faults = append(faults, c01Fault{b, "dcs-fail"})
		}
	}
	r := rand.New(rand.NewSource(u.Seed ^ 0xc04))
	r.Shuffle(len(faults), func(i, j int) { faults[i], faults[j] = faults[j], faults[i] })
	n := tierN(u.Job.Tier, 8, 1000)
	if n > len(faults) {
		n = len(faults)
	}
	// stratified: the first half of the sample are semi-sync statements (to the subject first), where a failed or
	// interrupted call leaves the flags and the list disagreeing
	subject := haNames[sh.N-1]
	k := 0
	// a failed write of the list itself (the publish step) is always in the sample
	for i := k; i < len(faults) && k < 1; i++ {
		if f := faults[i]; f.Kind == "dcs-fail" && f.B.Host == "active_nodes" && f.B.Class == "Set" && f.B.Occ <= 2 {
			faults[k], faults[i] = faults[i], faults[k]
			k++
		}
	}
	// a failing read of the recovery marks in the second and third iteration after the transition (the first removed
	// the marked host; a later one that cannot read the marks must not bring it back)
	for i, k2 := k, 0; i < len(faults) && k2 < 2 && k < n; i++ {
		if f := faults[i]; sh.Trans == "recovery_mark" && f.Kind == "dcs-fail" && strings.HasPrefix(f.B.Host, "recovery") && (f.B.Occ == 2 || f.B.Occ == 3) {
			faults[k], faults[i] = faults[i], faults[k]
			k++
			k2++
		}
	}
	for pass := 0; pass < 2; pass++ {
		for i := k; i < len(faults) && k < n/2; i++ {
			f := faults[i]
			if f.B.Kind == "sql" && strings.HasPrefix(f.B.Class, "ss_") && f.B.Occ <= 2 && (pass == 1 || f.B.Host == subject) {
				faults[k], faults[i] = faults[i], faults[k]
				k++
			}
		}
	}
	for i := 0; i < n; i++ {
		f := faults[i]
		c04Scenario(u, fmt.Sprintf("%s-f%d-%s-%s", base, i, f.Kind, strings.ReplaceAll(f.B.Key(), "|", "_")), sh, &f)
	}
}

func init() {
	register(&Prop{ID: "C04", Units: func(tier string) int { return tierN(tier, 84, 420) }, Run: c04Run,
		Floor: func(string) []string {
			f := []string{"fault:kill-after", "fault:fail", "fault:dcs-fail", "eviction"}
			for _, t := range c04Trans {
				if t != "steady" {
					f = append(f, "transition:"+t)
				}
			}
			return f
		},
		Rule: "unit = (2-5 HA nodes, configured count 1-3, adjustment order, cascade) x one membership/health transition applied to a converged semi-sync cluster; baseline run enumerates the manager's call boundaries of the update, then one run per sampled (boundary x {manager dies right after the call, the call fails}), half of the sample stratified to the semi-sync statements; a restart of the master in place (membership unchanged, its semi-sync variables back at OFF); two compound transitions let a member be unreachable beyond the inactivation delay and return ineligible with its flag still set; predicates (a),(b) are evaluated on ground truth after every mutating event; non-trivial = the run issued semi-sync statements or wrote the list; distinct by (transition, n, w, order, fault kind, boundary class)"})
}
