package sim

import (
	"fmt"
	"testing"
	"testing/synctest"
	"time"
)

func TestSmoke(t *testing.T) {
	dir := t.TempDir()
	synctest.Test(t, func(t *testing.T) {
		s := New(dir, Opts{HA: []string{"vla-db1", "sas-db2", "myt-db3"}, Workload: true, ResetupTool: true, Seed: 1})
		s.Start()
		time.Sleep(60 * time.Second)
		fmt.Println("master:", s.Master(), "active:", s.ActiveNodes())
		fmt.Print(s.W.Describe())
		s.W.Crash("vla-db1")
		time.Sleep(90 * time.Second)
		fmt.Println("master:", s.Master(), "active:", s.ActiveNodes())
		fmt.Print(s.W.Describe())
		s.W.Restart("vla-db1")
		time.Sleep(120 * time.Second)
		fmt.Println("master:", s.Master(), "active:", s.ActiveNodes())
		fmt.Print(s.W.Describe())
		fmt.Println(s.CheckCanonical(nil), "lost:", len(s.LostAcked(s.Master())), "txns:", len(s.W.Txns), "unrecognised:", s.W.Unrecognised)
		for _, e := range s.W.Events() {
			if e.Kind == "sql" && e.Mut && e.Phase == "call" || e.Kind == "zk" && e.Class != "session-open" || e.Kind == "world" || e.Kind == "file" {
				fmt.Println(e)
			}
		}
		s.Stop()
	})
}
