package sim

import (
	"fmt"

	"github.com/yandex/mysync/verif/world"
)

// dualAck watches acknowledgements on ground truth: a violation is a server B acknowledging a
// client commit at an instant t while another server A has acknowledged commits both before and
// after t within one uninterrupted writable epoch of A (so A was an acknowledging, writable
// master throughout while B acknowledged too).
type dualAck struct {
	sc       *Scen
	prop     string
	epoch    map[string]int
	writable map[string]bool
	ackedIn  map[string]int    // host -> epoch in which it last acknowledged (0 = never)
	foreign  map[string]string // host A -> other host that acknowledged during A's current acknowledging epoch
	acks     map[string]int
}

func newDualAck(sc *Scen, prop string) *dualAck {
	d := &dualAck{sc: sc, prop: prop, epoch: map[string]int{}, writable: map[string]bool{}, ackedIn: map[string]int{}, foreign: map[string]string{}, acks: map[string]int{}}
	w := sc.S.W
	w.Lock()
	d.refresh(w)
	w.OnChange = append(w.OnChange, d.refresh)
	w.OnAck = append(w.OnAck, d.onAck)
	w.Unlock()
	return d
}

func (d *dualAck) refresh(w *world.World) {
	for h, s := range w.Servers {
		wr := s.Writable()
		if wr != d.writable[h] {
			d.writable[h] = wr
			d.epoch[h]++
			delete(d.foreign, h)
		}
	}
}

func (d *dualAck) onAck(w *world.World, t *world.Txn) {
	d.refresh(w)
	b := t.Host
	d.acks[b]++
	if other, ok := d.foreign[b]; ok && d.ackedIn[b] == d.epoch[b] {
		d.sc.Violate(d.prop, "dual-ack", fmt.Sprintf("%s acknowledged %s:%d after %s acknowledged commits, while %s stayed writable and acknowledging throughout (t=%.3fs)",
			b, t.UUID, t.Gno, other, b, w.Now().Seconds()), w.DescribeLocked())
	}
	d.ackedIn[b] = d.epoch[b]
	for a := range w.Servers {
		if a != b && d.writable[a] && d.ackedIn[a] == d.epoch[a] && d.ackedIn[a] != 0 {
			d.foreign[a] = b
		}
	}
}

// ackedLoss reports acknowledged transactions missing on the given host as a violation.
func ackedLoss(sc *Scen, prop, host string) int {
	lost := sc.S.LostAcked(host)
	if len(lost) > 0 {
		t := lost[0]
		sig := "acked-loss:acknowledged-by-a-former-recorded-master"
		if !sc.S.WasEverMaster(t.Host) {
			sig = "acked-loss:acknowledged-by-a-promoted-but-never-recorded-master"
		}
		sc.Violate(prop, sig, fmt.Sprintf("%d acknowledged transactions are missing on the final master %s, first %s:%d acknowledged by %s at %.3fs",
			len(lost), host, t.UUID, t.Gno, t.Host, t.EndAt.Seconds()), sc.S.W.Describe())
	}
	return len(lost)
}

// ackedCount returns the number of acknowledged transactions in [from,to) of virtual time.
func ackedBetween(sc *Scen, from, to float64) int {
	sc.S.W.Lock()
	defer sc.S.W.Unlock()
	n := 0
	for _, t := range sc.S.W.Txns {
		if t.State == "acked" && t.EndAt.Seconds() >= from && t.EndAt.Seconds() < to {
			n++
		}
	}
	return n
}
