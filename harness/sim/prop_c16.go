package sim

import (
	"fmt"
	"math/rand"
	"os"
	"regexp"
	"strings"
	"sync"
	"time"

	"github.com/yandex/mysync/internal/app"
	nodestate "github.com/yandex/mysync/internal/app/node_state"
	"github.com/yandex/mysync/internal/config"
	"github.com/yandex/mysync/internal/log"
	"github.com/yandex/mysync/internal/mysql"
	"github.com/yandex/mysync/verif/fakezk"
	"github.com/yandex/mysync/verif/world"
)

// C16 — cascade replicas: source resolution (direct calls against an independent chain walk),
// guarded moves, never in the list / quorum / promoted (cluster simulation).

var reChangeHost = regexp.MustCompile(`(?i)_HOST = '([^']*)'`)

type c16Health struct {
	ping, offline, master, running bool
	lag                            *float64
}

func c16Healthy(h c16Health, reasonable float64) bool {
	if !h.ping || h.offline {
		return false
	}
	return h.master || (h.running && h.lag != nil && *h.lag < reasonable)
}

// c16Ref is the statement read as an algorithm.
func c16Ref(replica, master string, topo map[string]string, health map[string]c16Health, curSource string, curRunning bool, reasonable float64) string {
	visited := map[string]bool{replica: true}
	cur := replica
	first := true
	for {
		sf := topo[cur]
		if sf == "" {
			return master
		}
		if visited[sf] {
			return master
		}
		if first && curRunning && curSource == sf {
			return sf
		}
		first = false
		if h, ok := health[sf]; ok && c16Healthy(h, reasonable) {
			return sf
		}
		visited[sf] = true
		cur = sf
	}
}

func c16Pure(u *Unit, part int) {
	u.Pure(fmt.Sprintf("c16-resolution-%d", part), map[string]any{"part": part}, func(sc *Scen) {
		cfg, _ := config.DefaultConfig()
		cfg.StreamFromReasonableLag = 5 * time.Minute
		logger, closer, _, err := log.Open(os.DevNull, "error", 100, 50*time.Millisecond)
		if err != nil {
			sc.Inconclusive(err.Error())
			return
		}
		defer closer.Close()
		rng := rand.New(rand.NewSource(u.Seed))
		names := []string{"m", "h1", "c1", "c2", "c3"}
		lagVals := []*float64{nil, fp(0), fp(299), fp(300), fp(1000)}
		n := 0
		cnt := tierN(u.Job.Tier, 60000, 1500000)
		for i := 0; i < cnt; i++ {
			nh := 2 + rng.Intn(4)
			hosts := names[:nh]
			master := "m"
			replica := hosts[1+rng.Intn(nh-1)]
			topo := map[string]string{}
			for _, h := range hosts[1:] {
				if h == "h1" && rng.Intn(2) == 0 {
					continue // an HA node has no stream_from
				}
				switch rng.Intn(6) {
				case 0:
					topo[h] = h // self reference
				case 1:
					topo[h] = "ghost" // unregistered
				default:
					topo[h] = hosts[rng.Intn(nh)]
				}
			}
			if topo[replica] == "" {
				topo[replica] = hosts[rng.Intn(nh)]
			}
			health := map[string]c16Health{}
			cs := map[string]*nodestate.NodeState{}
			for _, h := range hosts {
				hh := c16Health{ping: rng.Intn(4) != 0, offline: rng.Intn(5) == 0, master: h == master, running: rng.Intn(3) != 0, lag: lagVals[rng.Intn(len(lagVals))]}
				health[h] = hh
				ns := &nodestate.NodeState{PingOk: hh.ping, IsOffline: hh.offline, IsMaster: hh.master}
				if !hh.master {
					st := mysql.ReplicationRunning
					if !hh.running {
						st = mysql.ReplicationStopped
					}
					ns.SlaveState = &nodestate.SlaveState{ReplicationState: st, ReplicationLag: hh.lag, MasterHost: master}
				}
				cs[h] = ns
			}
			curSource := hosts[rng.Intn(nh)]
			curRunning := rng.Intn(2) == 0
			cs[replica].SlaveState = &nodestate.SlaveState{MasterHost: curSource, ReplicationState: map[bool]string{true: mysql.ReplicationRunning, false: mysql.ReplicationStopped}[curRunning], ReplicationLag: fp(1)}
			h2 := health[replica]
			h2.running = curRunning
			health[replica] = h2
			ct := map[string]mysql.CascadeNodeConfiguration{}
			flat := map[string]string{}
			for h, sf := range topo {
				ct[h] = mysql.CascadeNodeConfiguration{StreamFrom: sf}
				flat[h] = sf
			}
			type out struct{ v string }
			ch := make(chan out, 1)
			go func() { ch <- out{app.VerifFindBestStreamFrom(&cfg, logger, replica, cs, master, ct)} }()
			var got string
			select {
			case o := <-ch:
				got = o.v
			case <-time.After(20 * time.Second):
				sc.Violate("C16", "resolution-does-not-terminate", fmt.Sprintf("resolving the source of %s did not return within 20 s (topology %v)", replica, flat))
				return
			}
			n++
			want := c16Ref(replica, master, flat, health, curSource, curRunning, 300)
			at := fmt.Sprintf("replica %s, master %s, stream_from map %v, current source %s (running=%v), health %s", replica, master, flat, curSource, curRunning, c16Desc(health))
			if got == replica {
				sc.Violate("C16", "resolved-to-itself", "the resolved source is the replica itself: "+at)
			}
			if got != want {
				sc.Violate("C16", "resolution-differs-from-chain-walk", fmt.Sprintf("resolved %q, the chain walk of the statement gives %q: %s", got, want, at))
			}
			kind := "ancestor"
			switch {
			case want == master && topo[replica] != master:
				kind = "fallback-master"
			case want == topo[replica]:
				kind = "configured"
			}
			cyc := topo[replica] == replica
			sc.Coverf("resolve|n=%d|kind=%s|self=%v|cur=%v", nh, kind, cyc, curRunning && curSource == topo[replica])
		}
		sc.Stat("evaluations", n)
		sc.Obs("%d random stream_from maps over 2-5 hosts (chains, cycles, self references, unregistered and HA sources) x health/lag/offline of every host x current source compared with the chain walk", n)
	})
}

func fp(v float64) *float64 { return &v }

func c16Desc(h map[string]c16Health) string {
	var parts []string
	for k, v := range h {
		l := "nil"
		if v.lag != nil {
			l = fmt.Sprint(*v.lag)
		}
		parts = append(parts, fmt.Sprintf("%s{ping=%v off=%v master=%v run=%v lag=%s}", k, v.ping, v.offline, v.master, v.running, l))
	}
	return strings.Join(parts, " ")
}

type c16Spec struct {
	N       int    `json:"n_ha"`
	Event   string `json:"event"` // source_dies source_lags source_returns_behind all_ha_replicas_dead switch_request reconfigure convert_at_outage
	Chain   bool   `json:"two_level_chain"`
	CascGap string `json:"cascade_vs_new_source"` // behind equal ahead
}

var c16Events = []string{"source_dies", "source_lags", "source_returns_behind", "all_ha_replicas_dead", "switch_request", "reconfigure", "convert_at_outage", "collector_query_fails_on_cascade", "config_read_fails", "convert_streams_from_master"}

func c16Sim(u *Unit) {
	r := rand.New(rand.NewSource(u.Seed))
	sp := c16Spec{N: 3 + r.Intn(2), Event: c16Events[u.Idx%len(c16Events)], Chain: r.Intn(2) == 0, CascGap: []string{"behind", "equal", "ahead"}[r.Intn(3)]}
	hosts := append([]string(nil), haNames[:sp.N]...)
	src := hosts[1]
	casc := map[string]string{"cas-db9": src}
	if sp.Chain {
		casc["cas-db8"] = "cas-db9"
	}
	opts := Opts{HA: hosts, Cascade: casc, Seed: u.Seed, Workload: true, PreConverged: true,
		Cfg: func(h string, c *config.Config) {
			c.FailoverDelay = 5 * time.Second
			c.InactivationDelay = 10 * time.Second
			c.StreamFromReasonableLag = 60 * time.Second
		}}
	u.Scenario(fmt.Sprintf("c16-%d-%s", u.Idx, sp.Event), sp, opts, func(sc *Scen) {
		s := sc.S
		// config_read_fails: the k-th read of one path inside a manager iteration fails (the first read of an iteration
		// belongs to the refresh of the host list, the later ones to the repair of the cascade replicas)
		var cfgMu sync.Mutex
		cfgPath, cfgK, cfgN := "", 0, 0
		if sp.Event == "config_read_fails" {
			s.OnIter(func(inst, state, next string, begin bool) {
				if begin && state == "Manager" {
					cfgMu.Lock()
					cfgN = 0
					cfgMu.Unlock()
				}
			})
			s.DCSGate = func(name, method, path string) error {
				cfgMu.Lock()
				defer cfgMu.Unlock()
				if cfgPath == "" || path != cfgPath || (method != "Get" && method != "GetChildren") || name != lockHolder(s) {
					return nil
				}
				cfgN++
				if cfgN == cfgK {
					cfgPath = ""
					return fmt.Errorf("zk: connection closed (injected)")
				}
				return nil
			}
		}
		var mu sync.Mutex
		moves := 0
		convertedLate := ""
		if sp.Event == "convert_at_outage" {
			convertedLate = hosts[len(hosts)-1]
		}
		var cmu sync.Mutex // casc grows when the scenario converts an HA replica
		isCasc := func(h string) bool { cmu.Lock(); defer cmu.Unlock(); _, ok := casc[h]; return ok }
		cascHosts := func() []string {
			cmu.Lock()
			defer cmu.Unlock()
			var out []string
			for h := range casc {
				out = append(out, h)
			}
			return out
		}
		s.OnZK(func(r fakezk.Rec) {
			p := strings.TrimPrefix(r.Path, NS+"/")
			if p == "active_nodes" && (r.Op == "set" || r.Op == "create") {
				for _, h := range cascHosts() {
					if h == convertedLate {
						continue // the list was frozen by the outage before the conversion; it is judged at the filing instead
					}
					if strings.Contains(r.Data, `"`+h+`"`) {
						sc.Violate("C16", "cascade-host-in-active-list", fmt.Sprintf("%s published %s which contains the cascade replica %s", r.Client, r.Data, h))
					}
				}
			}
			if p == "switch" && r.Op == "create" && isDaemon(s, r.Client) && sp.Event == "convert_at_outage" {
				sc.Violate("C16", "failover-filed-counting-cascade-replicas", fmt.Sprintf("%s filed %s although the quorum of the published list can only be reached by counting %s, which has been a cascade replica since the outage began", r.Client, r.Data, convertedLate))
			}
			if p == "switch" && r.Op == "create" && isDaemon(s, r.Client) && sp.Event == "all_ha_replicas_dead" {
				sc.Violate("C16", "failover-filed-counting-cascade-replicas", fmt.Sprintf("%s filed %s although every HA replica is dead and only cascade replicas are alive", r.Client, r.Data))
			}
		})
		s.W.Lock()
		type pre struct {
			src  string
			ok   bool
			exec world.GTIDSet
		}
		before := map[string]pre{}
		s.W.BeforeStmt = append(s.W.BeforeStmt, func(w *world.World, c *world.StmtCtx) {
			if !strings.HasPrefix(c.Caller, "mysync_") {
				return
			}
			if c.Class == "set_writable" && isCasc(c.Host) {
				sc.Violate("C16", "cascade-replica-promoted", fmt.Sprintf("%s makes the cascade replica %s writable", c.Caller, c.Host))
			}
			if c.Class == "stop_replica" && isCasc(c.Host) {
				// remember the state in which the move started (the code stops the replica before it compares)
				x := w.Servers[c.Host]
				mu.Lock()
				if _, ok := before[c.Host]; !ok {
					before[c.Host] = pre{x.Source, x.Source != "" && x.LastIOErrno == 0 && x.LastSQLErrno == 0, x.Executed.Clone()}
				}
				mu.Unlock()
			}
			if c.Class == "change_source" && isCasc(c.Host) {
				x := w.Servers[c.Host]
				m := reChangeHost.FindStringSubmatch(c.Text)
				if m == nil {
					return
				}
				ns := w.Servers[m[1]]
				mu.Lock()
				moves++
				b, had := before[c.Host]
				delete(before, c.Host)
				mu.Unlock()
				if m[1] == c.Host {
					sc.Violate("C16", "cascade-pointed-at-itself", fmt.Sprintf("%s points %s at itself", c.Caller, c.Host))
				}
				configured := x.Source != "" && x.LastIOErrno == 0 && x.LastSQLErrno == 0
				if had {
					configured = b.ok
				}
				if configured && ns != nil && m[1] != x.Source && !x.Executed.SubsetOf(ns.Executed) {
					sc.Violate("C16", "cascade-moved-to-source-that-lacks-its-transactions", fmt.Sprintf("%s moves %s from %s to %s whose executed set lacks %s", c.Caller, c.Host, x.Source, m[1], x.Executed.Minus(ns.Executed).OneLine()), w.DescribeLocked())
				}
				if m[1] != x.Source {
					sc.Cover("cascade-moved")
					rel := "equal"
					if ns != nil {
						switch {
						case x.Executed.Equal(ns.Executed):
						case x.Executed.SubsetOf(ns.Executed):
							rel = "candidate-ahead"
						default:
							rel = "candidate-behind"
						}
					}
					sc.Cover("move:" + rel)
				}
			}
		})
		s.W.Unlock()
		s.Start()
		time.Sleep(17 * time.Second)
		w := s.W
		switch sp.Event {
		case "source_dies":
			w.Crash(src)
			time.Sleep(60 * time.Second)
			w.Restart(src)
		case "source_lags":
			w.Manual(src, "lag 500 s", func(x *world.Server) { l := 500.0; x.Lag = &l })
			time.Sleep(40 * time.Second)
			w.Manual(src, "lag gone", func(x *world.Server) { x.Lag = nil })
		case "source_returns_behind":
			// the configured source dies, the cascade moves to the master and runs ahead of the returning source
			w.Crash(src)
			time.Sleep(40 * time.Second)
			w.Manual(src, "slow catch-up", func(x *world.Server) { x.DownloadRate, x.ApplyRate = 1, 1 })
			w.Restart(src)
			time.Sleep(60 * time.Second)
			w.Manual(src, "normal", func(x *world.Server) { x.DownloadRate, x.ApplyRate = 0, 0 })
		case "all_ha_replicas_dead":
			for _, h := range hosts[1:] {
				w.Crash(h)
			}
			time.Sleep(15 * time.Second)
			w.Crash(hosts[0])
			time.Sleep(50 * time.Second)
			sc.Cover("only-cascade-alive")
		case "convert_at_outage":
			// the master dies; at the same moment the operator turns an HA replica into a cascade replica. The published
			// list is frozen by the outage and still names it: it must not be counted towards the failover quorum
			x := convertedLate
			w.Crash(hosts[0])
			s.ZK.Remove("operator", NS+"/ha_nodes/"+x)
			s.ZK.Put("operator", NS+"/cascade_nodes/"+x, fmt.Sprintf(`{"stream_from":%q}`, hosts[1]))
			cmu.Lock()
			casc[x] = hosts[1]
			cmu.Unlock()
			time.Sleep(60 * time.Second)
			sc.Cover("converted-during-outage")
		case "convert_streams_from_master":
			// the operator turns an active HA replica (semi-sync replica plugin on) into a cascade replica that streams
			// from the master itself: it is no member any more, so within a few iterations it must stop acknowledging the
			// master's commits - a host that can never be promoted is not counted towards any quorum
			x := hosts[len(hosts)-1]
			s.ZK.Remove("operator", NS+"/ha_nodes/"+x)
			s.ZK.Put("operator", NS+"/cascade_nodes/"+x, fmt.Sprintf(`{"stream_from":%q}`, hosts[0]))
			cmu.Lock()
			casc[x] = hosts[0]
			cmu.Unlock()
			time.Sleep(30 * time.Second)
			w.Lock()
			cx := w.Servers[x]
			acking := cx.Up && cx.SSSlave && cx.Source == hosts[0] && cx.IORun
			desc := w.DescribeLocked()
			w.Unlock()
			if acking && !contains(s.ActiveNodes(), x) {
				sc.Violate("C16", "cascade-replica-keeps-acknowledging-the-master", fmt.Sprintf("30 s (six manager iterations) after %s became a cascade replica of the master it is outside the published list %v and still has the semi-sync replica plugin on: its acknowledgements count for the master's wait count", x, s.ActiveNodes()), desc)
			}
			sc.Cover("ha-replica-converted-to-cascade-of-the-master")
		case "collector_query_fails_on_cascade":
			// for half a minute one of the last queries of the state collection fails on the (healthy) cascade replica while
			// it answers pings: the manager's picture of it is incomplete, its role is not
			w.Lock()
			until := time.Now().Add(30 * time.Second)
			w.Fault = func(c *world.StmtCtx) world.FaultAction {
				if c.Class == "semisync_status" && c.Host == "cas-db9" && c.Caller != "mysync_cas-db9" && time.Now().Before(until) {
					sc.Cover("collector-query-failed-on-cascade")
					return world.FaultAction{Kind: "fail", Errno: 3024}
				}
				return world.FaultAction{}
			}
			w.Unlock()
			time.Sleep(60 * time.Second)
		case "switch_request":
			fileSwitch(sc, "", "cas-db9", "manual", "switchover", "operator")
			time.Sleep(20 * time.Second)
			fileSwitch(sc, hosts[0], "", "manual", "switchover", "operator")
			time.Sleep(40 * time.Second)
			sc.Cover("switch-with-cascade")
		case "config_read_fails":
			// everything is healthy; single reads of the cascade configuration fail (first the replica's own entry, then -
			// in a chain - its child's, then the listing): a replica on its healthy configured source stays there
			mu.Lock()
			before := moves
			mu.Unlock()
			for _, p := range []string{"cascade_nodes/cas-db9", "cascade_nodes/cas-db8", "cascade_nodes"} {
				if p == "cascade_nodes/cas-db8" && !sp.Chain {
					continue
				}
				for _, k := range []int{2, 3} {
					cfgMu.Lock()
					cfgPath, cfgK, cfgN = p, k, 99 // (counting starts with the next iteration)
					cfgMu.Unlock()
					time.Sleep(12 * time.Second)
				}
			}
			cfgMu.Lock()
			cfgPath = ""
			cfgMu.Unlock()
			mu.Lock()
			after := moves
			mu.Unlock()
			if after != before {
				sc.Violate("C16", "healthy-cascade-replica-moved-after-a-failed-configuration-read", fmt.Sprintf("%d CHANGE SOURCE statements reached cascade replicas while every host was healthy and only single reads of the cascade configuration failed", after-before), w.Describe())
			}
			sc.Cover("cascade-configuration-read-failed")
		case "reconfigure":
			s.ZK.Put("operator", NS+"/cascade_nodes/cas-db9", fmt.Sprintf(`{"stream_from":%q}`, hosts[len(hosts)-1]))
			if sp.CascGap == "ahead" {
				w.Manual(hosts[len(hosts)-1], "slow", func(x *world.Server) { x.DownloadRate, x.ApplyRate = 1, 1 })
			}
			time.Sleep(60 * time.Second)
			if sp.CascGap != "ahead" {
				// bounded progress: the new configured source is a healthy, current HA replica, so the cascade replica
				// must be streaming from it a minute (twelve manager iterations) after the operator re-pointed it
				tgt := hosts[len(hosts)-1]
				w.Lock()
				c9, t := w.Servers["cas-db9"], w.Servers[tgt]
				healthy := t.Up && t.IORun && t.SQLRun && t.LastIOErrno == 0 && t.LastSQLErrno == 0 && c9.Up && c9.Executed.Minus(t.Retrieved).SubsetOf(t.Executed)
				cur := c9.Source
				desc := w.DescribeLocked()
				w.Unlock()
				if healthy && cur != tgt {
					sc.Violate("C16", "reconfigured-cascade-replica-stays-on-old-source", fmt.Sprintf("60 s after the operator set stream_from of cas-db9 to the healthy replica %s it still streams from %q", tgt, cur), desc)
				} else if cur == tgt {
					sc.Cover("reconfigured-cascade-replica-followed")
				}
			}
		}
		time.Sleep(30 * time.Second)
		mu.Lock()
		mv := moves
		mu.Unlock()
		sc.Stat("cascade_change_source_statements", mv)
		sc.Coverf("sim|event=%s|n=%d|chain=%v|moves=%d", sp.Event, sp.N, sp.Chain, min(mv, 3))
		w.Lock()
		c9 := w.Servers["cas-db9"]
		sc.Obs("event %s (chain=%v): %d CHANGE SOURCE statements reached cascade replicas; cas-db9 now streams from %q (io=%v sql=%v); active %v", sp.Event, sp.Chain, mv, c9.Source, c9.IORun, c9.SQLRun, s.ActiveNodesCached())
		w.Unlock()
	})
}

func c16Run(u *Unit) {
	np := tierN(u.Job.Tier, 8, 32)
	if u.Idx < np {
		c16Pure(u, u.Idx)
		return
	}
	c16Sim(u)
}

func init() {
	register(&Prop{ID: "C16", Units: func(tier string) int { return tierN(tier, 8, 32) + tierN(tier, 150, 3000) }, Run: c16Run,
		Floor: func(string) []string {
			return []string{"cascade-moved", "move:candidate-ahead", "only-cascade-alive", "switch-with-cascade", "cascade-configuration-read-failed", "ha-replica-converted-to-cascade-of-the-master"}
		},
		Rule: "resolution: random stream_from maps over 2-5 hosts (chains, cycles, self references, unregistered hosts, HA nodes as sources) x ping/offline/role/replication/lag of every host x current source of the replica, the real findBestStreamFrom compared with an independent chain walk under a termination watchdog; cluster part: cascade replicas (one or a two-level chain) while their source dies, lags, returns behind, is reconfigured, all HA replicas die, switch requests name them; every CHANGE SOURCE at a cascade replica is judged on ground truth (new source contains its transactions unless it had no working replication), lists, promotions and automatic requests against cascade hosts; distinct by the cover tuples"})
}
