package sim

import (
	"fmt"
	"math/rand"
	"strings"
	"sync"
	"sync/atomic"
	"time"

	"github.com/yandex/mysync/internal/config"
	"github.com/yandex/mysync/verif/world"
)

// C08 — a daemon that lost the coordination service fences its node unless provably safe.
// The decision table of the statement is applied to the instance's own view of the replicas
// (the replies its probes received) in every iteration of the Lost handler.

type c08Spec struct {
	N        int      `json:"n_ha"`
	Role     string   `json:"local_role"` // master replica cascade
	SemiSync bool     `json:"semi_sync"`
	W        int      `json:"wait_count"`
	NoFence  bool     `json:"disable_set_readonly_on_lost"`
	Repl     []string `json:"replica_conditions"` // per other HA host: streaming stopped wrong_source not_semisync refusing timing_out io_connecting
	RO       string   `json:"read_only_attempt"`  // ok lock_wait deadline other_error
	HealS    int      `json:"timeouts_heal_after_s"`
	Turn     string   `json:"timing_out_replicas_then"` // healthy refusing stopped: what they are once they answer again
	Second   bool     `json:"second_loss_after_reconnect"`
	SSFail   bool     `json:"first_semi_sync_disable_fails"` // the stuck-commit handling fails half-way once (offline already set) and is retried
}

var c08Conds = []string{"streaming", "stopped", "wrong_source", "not_semisync", "refusing", "timing_out"}

func c08Gen(seed int64, idx int) c08Spec {
	r := rand.New(rand.NewSource(seed))
	sp := c08Spec{N: 1 + r.Intn(4), SemiSync: r.Intn(4) != 0, W: 1 + r.Intn(2), NoFence: r.Intn(10) == 0}
	sp.Role = []string{"master", "master", "replica", "cascade"}[idx%4]
	if sp.Role == "replica" && sp.N < 2 {
		sp.N = 2
	}
	stuck := idx%8 == 5 // a share of scenarios is built to end with commits hanging on semi-sync
	if stuck {
		sp.Role, sp.SemiSync, sp.NoFence = "master", true, false
		if sp.N < 2 {
			sp.N = 2 + r.Intn(3)
		}
	}
	for i := 1; i < sp.N; i++ {
		c := "streaming"
		if r.Intn(5) < 3 {
			c = c08Conds[r.Intn(len(c08Conds))]
		}
		sp.Repl = append(sp.Repl, c)
	}
	sp.RO = []string{"ok", "ok", "lock_wait", "deadline", "other_error"}[r.Intn(5)]
	if stuck {
		sp.RO = "lock_wait"
	}
	if sp.RO == "lock_wait" && sp.Role == "master" && sp.SemiSync {
		// commits hang on semi-sync because the replicas stopped fetching: the group is not live
		for i := range sp.Repl {
			sp.Repl[i] = "stopped"
		}
	}
	sp.HealS = []int{0, 8, 0, 45}[r.Intn(4)]
	sp.Turn = []string{"healthy", "refusing", "stopped"}[r.Intn(3)]
	sp.Second = sp.RO != "lock_wait" && r.Intn(3) == 0
	sp.SSFail = stuck && (idx/8)%2 == 1
	if idx%16 == 1 {
		// every replica can be queried by the lost master's daemon but has lost its own connection to the master: its IO
		// thread reports Connecting - not streaming
		sp.Role, sp.NoFence, sp.N, sp.W, sp.RO, sp.HealS, sp.Second, sp.SSFail = "master", false, 3, 1, "ok", 0, false, false
		sp.SemiSync = (idx/16)%2 == 0
		sp.Repl = []string{"io_connecting", "io_connecting"}
	}
	if idx%16 == 9 {
		// a replica is unreachable at first (the postponement timer is armed) and refuses / has stopped replicating eight
		// seconds later, well inside the delay: from then on nothing justifies waiting
		sp.Role, sp.SemiSync, sp.NoFence, sp.N, sp.W, sp.RO, sp.HealS, sp.Second, sp.SSFail = "master", true, false, 3, 1, "ok", 8, false, false
		sp.Repl = []string{"timing_out", []string{"stopped", "timing_out"}[(idx/16)%2]}
		sp.Turn = []string{"refusing", "stopped"}[(idx/32)%2]
	}
	return sp
}

const c08Delay = 20 * time.Second

type c08Iter struct {
	begin  time.Duration
	rs     map[string]string // replica_status view per host: note, "error", "timeout"
	ss     map[string]string
	acts   []string // mutating statements: class@host
	remote []string // mutating statements at remote servers
	setRO  bool
	roErr  []int
	seq    []string
	failed []string // other mutating statements at the local server that failed (injected)
}

type c08Monitor struct {
	mu           sync.Mutex
	sc           *Scen
	sp           c08Spec
	inst, local  string
	ha           []string
	it           *c08Iter
	firstTOEnd   time.Duration // end of the first lost iteration that saw a timeout (0 = none)
	LostIters    int
	Classes      map[string]int
	roInjected   bool
	sawCandidate bool
}

func newC08Monitor(sc *Scen, sp c08Spec, inst, local string, ha []string) *c08Monitor {
	m := &c08Monitor{sc: sc, sp: sp, inst: inst, local: local, ha: ha, Classes: map[string]int{}}
	s := sc.S
	s.OnIter(func(in, state, next string, begin bool) {
		if in != inst {
			return
		}
		s.W.Lock()
		m.mu.Lock()
		defer s.W.Unlock()
		defer m.mu.Unlock()
		if state != "Lost" {
			if !begin && state == "Candidate" && m.LostIters > 0 {
				m.sawCandidate = true
				m.firstTOEnd = 0 // the episode is over: the code's own timer is cleared on reconnect as well
			}
			return
		}
		if begin {
			m.it = &c08Iter{begin: s.W.Now(), rs: map[string]string{}, ss: map[string]string{}}
			return
		}
		if m.it != nil {
			m.judge(s.W, next)
			m.it = nil
		}
	})
	s.W.Lock()
	s.W.BeforeStmt = append(s.W.BeforeStmt, func(w *world.World, c *world.StmtCtx) {
		if instOfCaller(c.Caller) != inst {
			return
		}
		m.mu.Lock()
		defer m.mu.Unlock()
		if m.it == nil {
			return
		}
		if c.Class == "ss_disable" && c.Host == local && w.LivePendingLocked(local) > 0 {
			m.sc.Violate("C08", "semi-sync-disabled-with-commits-pending", fmt.Sprintf("%s switched semi-sync off on %s while %d commits of connected clients were still waiting for acknowledgement (they are then acknowledged to clients although no replica has them)", inst, local, w.LivePendingLocked(local)))
		}
		if c.Class == "ss_disable" && c.Host == local && w.PendingLocked(local) > 0 {
			m.sc.Cover("stuck-master-released-after-sessions-dropped")
		}
	})
	s.W.AfterStmt = append(s.W.AfterStmt, func(w *world.World, c *world.StmtCtx) {
		if instOfCaller(c.Caller) != inst {
			return
		}
		m.mu.Lock()
		defer m.mu.Unlock()
		it := m.it
		if it == nil {
			return
		}
		switch c.Class {
		case "replica_status", "dial":
			switch {
			case c.Errno == -3:
				it.rs[c.Host] = "timeout"
			case c.Errno != 0:
				it.rs[c.Host] = "error"
			case c.Class == "replica_status":
				it.rs[c.Host] = c.Note
			}
		case "semisync_status":
			if c.Errno == 0 {
				it.ss[c.Host] = c.Note
			}
		}
		if c.Mut {
			it.acts = append(it.acts, c.Class+"@"+c.Host)
			it.seq = append(it.seq, c.Class)
			if c.Host != local {
				it.remote = append(it.remote, c.Class+"@"+c.Host)
			}
			if (c.Class == "set_ro" || c.Class == "set_ro_nosuper") && c.Host == local {
				it.setRO = true
				it.roErr = append(it.roErr, c.Errno)
			} else if c.Host == local && c.Errno != 0 {
				it.failed = append(it.failed, c.Class)
			}
		}
	})
	s.W.Unlock()
	return m
}

// judge runs with world and monitor mutex held at the end of a Lost iteration.
func (m *c08Monitor) judge(w *world.World, next string) {
	it := m.it
	m.LostIters++
	sp := m.sp
	loc := w.Servers[m.local]
	isHA := false
	for _, h := range m.ha {
		if h == m.local {
			isHA = true
		}
	}
	// general prohibitions while disconnected
	if len(it.remote) > 0 {
		m.sc.Violate("C08", "remote-mutation-while-lost", fmt.Sprintf("%s sent mutating statements to remote servers while disconnected: %v", m.inst, it.remote))
	}
	for _, a := range it.acts {
		cl := strings.SplitN(a, "@", 2)[0]
		switch cl {
		case "set_writable", "change_source", "reset_replica", "start_replica", "start_io", "stop_replica", "stop_io", "stop_sql", "start_sql":
			m.sc.Violate("C08", "unfence-or-replication-change-while-lost:"+cl, fmt.Sprintf("%s issued %s while disconnected", m.inst, a))
		}
	}
	if next != "Lost" && next != "Candidate" {
		m.sc.Violate("C08", "wrong-next-state", fmt.Sprintf("Lost handler of %s returned %s", m.inst, next))
	}
	class := ""
	localIsMaster := it.rs[m.local] == "none"
	timedOut := false
	good := 0
	for _, h := range m.ha {
		if h == m.local {
			continue
		}
		v := it.rs[h]
		if v == "timeout" {
			timedOut = true
		}
		if strings.Contains(v, "src="+m.local+" ") && strings.Contains(v, "io=Yes sql=Yes") {
			if !sp.SemiSync || strings.Contains(it.ss[h], "s=1") {
				good++
			}
		}
	}
	remoteViews := 0
	for h := range it.rs {
		if h != m.local {
			remoteViews++
		}
	}
	switch {
	case len(m.ha) == 1 || !isHA:
		class = "none:single-or-non-ha"
	case sp.NoFence:
		class = "none:fencing-disabled"
	case next == "Candidate" && remoteViews == 0 && len(it.acts) == 0:
		// (a statement of the instance's health checker at its own server may land inside the instant of this iteration:
		// only views of other hosts show that the handler went on to examine the group)
		class = "reconnected"
	default:
		live := false
		if sp.SemiSync {
			wc := -1
			fmt.Sscanf(strings.TrimPrefix(it.ss[m.local][strings.Index(it.ss[m.local]+" w=", " w="):], " w="), "%d", &wc)
			live = wc >= 0 && good >= wc
		} else {
			live = good >= len(m.ha)-1
		}
		switch {
		case localIsMaster && live:
			class = "none:live-group"
		case timedOut:
			class = "fence-or-wait"
		default:
			class = "fence"
		}
	}
	m.Classes[class]++
	m.sc.Cover("class:" + class)
	if strings.HasPrefix(class, "none") && len(it.acts) > 0 {
		m.sc.Violate("C08", "touched-when-must-not:"+class, fmt.Sprintf("%s must change nothing in this lost iteration (%s; view %v / %v) but issued %v", m.inst, class, it.rs, it.ss, it.acts))
	}
	mustFence := class == "fence"
	if class == "fence-or-wait" {
		if m.firstTOEnd == 0 {
			m.firstTOEnd = w.Now()
		} else if it.begin > m.firstTOEnd+c08Delay {
			mustFence = true
			m.sc.Cover("fence-after-delay")
		} else if !it.setRO {
			m.sc.Cover("postponed-within-delay")
		}
	}
	if class == "fence" || class == "fence-or-wait" {
		// postponing is allowed only while some replica timed out
		if class == "fence" && !it.setRO {
			m.sc.Violate("C08", "not-fenced", fmt.Sprintf("%s had to fence %s in this lost iteration (local master=%v, live replicas %d, view %v / %v) but sent no read-only statement", m.inst, m.local, localIsMaster, good, it.rs, it.ss))
		}
		if mustFence && class == "fence-or-wait" && !it.setRO {
			m.sc.Violate("C08", "fencing-postponed-beyond-delay", fmt.Sprintf("%s still postpones fencing %s in an iteration that began %.1fs after the first iteration that saw a replica time out ended (delay %v)", m.inst, m.local, (it.begin-m.firstTOEnd).Seconds(), c08Delay))
		}
		if it.setRO {
			m.sc.Cover("fenced")
			injectedOther := false
			stuck := false
			for _, e := range it.roErr {
				if e == 1205 || e == -2 {
					stuck = true
				} else if e != 0 {
					injectedOther = true
				}
			}
			if len(it.failed) > 0 {
				m.sc.Cover("stuck-handling-step-failed")
			}
			if !loc.ReadOnly && !injectedOther && !m.roInjected && loc.Up && len(it.failed) == 0 {
				if !(stuck && w.PendingLocked(m.local) == 0 && !strings.Contains(strings.Join(it.seq, ","), "offline_on")) {
					m.sc.Violate("C08", "fence-attempted-but-not-read-only", fmt.Sprintf("%s sent read-only statements to %s (errors %v) but the server is still writable when the iteration ends; statements: %v", m.inst, m.local, it.roErr, it.seq), w.DescribeLocked())
				}
			}
			if stuck {
				seq := strings.Join(it.seq, ",")
				if i := strings.Index(seq, "offline_on"); i >= 0 {
					m.sc.Cover("stuck-commit-handling")
					j := strings.Index(seq[i:], "ss_disable")
					k := -1
					if j >= 0 {
						k = strings.Index(seq[i+j:], "set_ro")
					}
					if (j < 0 || k < 0) && len(it.failed) == 0 {
						m.sc.Violate("C08", "stuck-handling-sequence", fmt.Sprintf("after a lock-wait timeout with commits hanging, %s did not follow offline -> semi-sync off -> read-only: %v", m.inst, it.seq))
					}
				}
			}
		}
	}
}

func c08Run(u *Unit) {
	sp := c08Gen(u.Seed, u.Idx)
	hosts := append([]string(nil), haNames[:sp.N]...)
	local := hosts[0]
	var casc map[string]string
	switch sp.Role {
	case "replica":
		local = hosts[1]
	case "cascade":
		casc = map[string]string{"cas-db9": hosts[0]}
		local = "cas-db9"
	}
	opts := Opts{HA: hosts, Cascade: casc, Seed: u.Seed, Workload: true, PreConverged: true,
		Cfg: func(h string, c *config.Config) {
			c.SemiSync = sp.SemiSync
			c.RplSemiSyncMasterWaitForSlaveCount = sp.W
			c.DisableSetReadonlyOnLost = sp.NoFence
			c.InactivationDelay = c08Delay
			c.Failover = false
			c.DBLostCheckTimeout = 2 * time.Second
			if u.Idx%16 != 5 {
				c.ExcludeUsers = []string{"admin"} // with the default (empty) list the kill loop finds nothing to kill
			}
		}}
	u.Scenario(fmt.Sprintf("c08-%d-%s-%s", u.Idx, sp.Role, sp.RO), sp, opts, func(sc *Scen) {
		s := sc.S
		mon := newC08Monitor(sc, sp, local, local, hosts)
		dual := newDualAck(sc, "C08")
		_ = dual
		s.Start()
		time.Sleep(14 * time.Second)
		if sp.RO == "lock_wait" {
			s.ZKOutage(true)
		}
		// per-replica conditions (of the HA hosts other than the local one when it is the master)
		others := []string{}
		for _, h := range hosts {
			if h != local {
				others = append(others, h)
			}
		}
		var timing []string
		for i, h := range others {
			if i >= len(sp.Repl) || sp.Role != "master" {
				break
			}
			switch sp.Repl[i] {
			case "stopped":
				s.W.Manual(h, "stop replica", func(x *world.Server) { x.IORun, x.SQLRun = false, false })
			case "wrong_source":
				s.W.Manual(h, "wrong source", func(x *world.Server) { x.Source = "elsewhere-db0" })
			case "not_semisync":
				s.W.Manual(h, "not semi-sync", func(x *world.Server) { x.SSSlave, x.SSReg = false, false })
			case "io_connecting":
				s.W.Cut(h, local, true) // the replica cannot reach the master; the master's daemon can reach the replica
				sc.Cover("replica-io-thread-connecting")
			case "refusing":
				s.W.Crash(h)
			case "timing_out":
				s.W.Cut(local, h, true)
				timing = append(timing, h)
			}
		}
		// outcome of the read-only attempt
		switch sp.RO {
		case "deadline":
			s.W.Lock()
			s.W.Fault = func(c *world.StmtCtx) world.FaultAction {
				if (c.Class == "set_ro") && c.Host == local && instOfCaller(c.Caller) == local && c.Occ <= 2 {
					return world.FaultAction{Kind: "hang"}
				}
				return world.FaultAction{}
			}
			s.W.Unlock()
		case "lock_wait":
			if sp.SSFail {
				var done atomic.Bool
				s.W.Lock()
				s.W.Fault = func(c *world.StmtCtx) world.FaultAction {
					if c.Class == "ss_disable" && c.Host == local && instOfCaller(c.Caller) == local && done.CompareAndSwap(false, true) {
						return world.FaultAction{Kind: "fail", Errno: 2013}
					}
					return world.FaultAction{}
				}
				s.W.Unlock()
			}
		case "other_error":
			mon.roInjected = true
			s.W.Lock()
			s.W.Fault = func(c *world.StmtCtx) world.FaultAction {
				if (c.Class == "set_ro") && c.Host == local && instOfCaller(c.Caller) == local {
					return world.FaultAction{Kind: "fail", Errno: 1105}
				}
				return world.FaultAction{}
			}
			s.W.Unlock()
		}
		if sp.RO == "lock_wait" {
			// everybody loses the coordination service at the instant the replicas stop: no manager is left
			// that could switch semi-sync off before the local daemon fences
			s.ZKOutage(true)
		} else {
			time.Sleep(2 * time.Second)
			s.CutZK(local, true)
		}
		if sp.HealS > 0 {
			go func() {
				time.Sleep(time.Duration(sp.HealS) * time.Second)
				for _, h := range timing {
					// the condition observed earlier in the episode (unreachable) is replaced by another one
					switch sp.Turn {
					case "refusing":
						s.W.Crash(h)
					case "stopped":
						s.W.Manual(h, "replication stopped", func(x *world.Server) { x.IORun, x.SQLRun = false, false })
					}
					s.W.Cut(local, h, false)
				}
				if len(timing) > 0 {
					sc.Cover("condition-changed-within-the-delay:" + sp.Turn)
				}
			}()
		}
		time.Sleep(c08Delay + 75*time.Second)
		if sp.SSFail {
			time.Sleep(120 * time.Second) // room for the retry of the half-done handling (and for one more iteration after it)
		}
		if sp.RO == "lock_wait" {
			s.ZKOutage(false)
		}
		s.CutZK(local, false)
		time.Sleep(15 * time.Second)
		mon.mu.Lock()
		iters, classes, cand := mon.LostIters, fmt.Sprint(mon.Classes), mon.sawCandidate
		mon.mu.Unlock()
		if sp.Second && iters > 0 && cand {
			// the same process loses the coordination service once more: it has to notice again
			s.CutZK(local, true)
			time.Sleep(c08Delay + 30*time.Second)
			mon.mu.Lock()
			iters2 := mon.LostIters
			mon.mu.Unlock()
			if iters2 == iters {
				sc.Violate("C08", "second-loss-not-noticed", fmt.Sprintf("%s lost the coordination service a second time for %v and never ran its Lost handler (first episode: %d lost iterations)", local, c08Delay+30*time.Second, iters))
			}
			sc.Cover("second-loss-episode")
			s.CutZK(local, false)
			time.Sleep(15 * time.Second)
		}
		if iters > 0 && !cand {
			sc.Violate("C08", "no-return-to-candidate", fmt.Sprintf("%s did not leave the Lost state within 15 s after the coordination service came back", local))
		}
		sc.Stat("lost_iterations", iters)
		if iters > 0 {
			sc.Coverf("role=%s|n=%d|semi=%v|w=%d|nofence=%v|repl=%v|ro=%s|heal=%d|turn=%s", sp.Role, sp.N, sp.SemiSync, sp.W, sp.NoFence, sp.Repl, sp.RO, sp.HealS, sp.Turn)
		}
		s.W.Lock()
		loc := s.W.Servers[local]
		ro := loc.ReadOnly
		s.W.Unlock()
		sc.Obs("local %s role %s (n=%d semi-sync=%v w=%d fencing disabled=%v) replicas %v, read-only attempt %s: %d lost iterations, classes %s, local read-only at the end=%v, back to candidate=%v",
			local, sp.Role, sp.N, sp.SemiSync, sp.W, sp.NoFence, sp.Repl, sp.RO, iters, classes, ro, cand)
	})
}

func init() {
	register(&Prop{ID: "C08", Units: func(tier string) int { return tierN(tier, 400, 10000) }, Run: c08Run,
		Floor: func(string) []string {
			return []string{"class:none:single-or-non-ha", "class:none:fencing-disabled", "class:none:live-group", "class:fence", "class:fence-or-wait", "fenced", "postponed-within-delay", "fence-after-delay", "stuck-commit-handling", "stuck-handling-step-failed"}
		},
		Rule: "scenario = local role (master / HA replica / cascade) x cluster size 1-4 x semi-sync x configured count x fencing switch x per-replica condition (streaming, stopped, wrong source, not semi-sync, refusing, timing out) x outcome of the read-only attempt (ok, lock-wait timeout with commits hanging on semi-sync, hang to the deadline, other error) x whether timing-out replicas heal before/after the delay; every iteration of the Lost handler is classified by the statement's table on the instance's own view and judged; distinct by the full tuple"})
}
