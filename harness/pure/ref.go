// Package pure checks pure helpers of mysync against independent reference models.
package pure

import (
	"fmt"
	"sort"
	"strconv"
	"strings"
)

// Group is one (uuid, tag) pair of the small GTID universe.
type Group struct{ UUID, Tag string }

// BSet is a GTID set over a small universe: per group a bitmask of transaction numbers 1..63.
type BSet map[Group]uint64

func (s BSet) clone() BSet {
	o := BSet{}
	for g, m := range s {
		if m != 0 {
			o[g] = m
		}
	}
	return o
}

// SubsetOf reports s ⊆ o.
func (s BSet) SubsetOf(o BSet) bool {
	for g, m := range s {
		if m&^o[g] != 0 {
			return false
		}
	}
	return true
}

// Minus returns s \ o.
func (s BSet) Minus(o BSet) BSet {
	out := BSet{}
	for g, m := range s {
		if d := m &^ o[g]; d != 0 {
			out[g] = d
		}
	}
	return out
}

// Union returns s ∪ o.
func (s BSet) Union(o BSet) BSet {
	out := s.clone()
	for g, m := range o {
		if m != 0 {
			out[g] |= m
		}
	}
	return out
}

// Equal reports set equality.
func (s BSet) Equal(o BSet) bool { return s.SubsetOf(o) && o.SubsetOf(s) }

// Empty reports emptiness.
func (s BSet) Empty() bool {
	for _, m := range s {
		if m != 0 {
			return false
		}
	}
	return true
}

func intervals(m uint64) string {
	var parts []string
	for i := 1; i < 64; {
		if m&(1<<uint(i)) == 0 {
			i++
			continue
		}
		j := i
		for j+1 < 64 && m&(1<<uint(j+1)) != 0 {
			j++
		}
		if i == j {
			parts = append(parts, strconv.Itoa(i))
		} else {
			parts = append(parts, fmt.Sprintf("%d-%d", i, j))
		}
		i = j + 1
	}
	return strings.Join(parts, ":")
}

// Text prints the set in MySQL syntax (uuid[:tag]:intervals[:tag:intervals], comma separated).
func (s BSet) Text() string {
	byUUID := map[string][]Group{}
	for g, m := range s {
		if m != 0 {
			byUUID[g.UUID] = append(byUUID[g.UUID], g)
		}
	}
	uuids := make([]string, 0, len(byUUID))
	for u := range byUUID {
		uuids = append(uuids, u)
	}
	sort.Strings(uuids)
	var parts []string
	for _, u := range uuids {
		gs := byUUID[u]
		sort.Slice(gs, func(i, j int) bool { return gs[i].Tag < gs[j].Tag })
		p := u
		for _, g := range gs {
			if g.Tag != "" {
				p += ":" + g.Tag
			}
			p += ":" + intervals(s[g])
		}
		parts = append(parts, p)
	}
	return strings.Join(parts, ",")
}

// ParseText parses MySQL GTID text into a BSet (transaction numbers must be < 64).
func ParseText(text string) (BSet, error) {
	out := BSet{}
	text = strings.TrimSpace(strings.ReplaceAll(text, "\n", ""))
	if text == "" {
		return out, nil
	}
	for _, part := range strings.Split(text, ",") {
		f := strings.Split(strings.TrimSpace(part), ":")
		if len(f) < 2 {
			return nil, fmt.Errorf("bad part %q", part)
		}
		u := strings.ToLower(f[0])
		tag := ""
		for _, x := range f[1:] {
			if x == "" {
				return nil, fmt.Errorf("empty field in %q", part)
			}
			if x[0] < '0' || x[0] > '9' {
				tag = strings.ToLower(x)
				continue
			}
			lohi := strings.SplitN(x, "-", 2)
			lo, err := strconv.Atoi(lohi[0])
			if err != nil {
				return nil, err
			}
			hi := lo
			if len(lohi) == 2 {
				if hi, err = strconv.Atoi(lohi[1]); err != nil {
					return nil, err
				}
			}
			if lo < 1 || hi > 63 || hi < lo {
				return nil, fmt.Errorf("interval out of the reference universe: %q", x)
			}
			for i := lo; i <= hi; i++ {
				out[Group{u, tag}] |= 1 << uint(i)
			}
		}
	}
	return out, nil
}
