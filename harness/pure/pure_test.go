package pure

import (
	"encoding/json"
	"fmt"
	"math/rand"
	"os"
	"sort"
	"strings"
	"testing"
	"time"

	"github.com/google/uuid"

	"github.com/yandex/mysync/internal/app"
	"github.com/yandex/mysync/internal/config"
	"github.com/yandex/mysync/internal/log"
	"github.com/yandex/mysync/internal/mysql"
	"github.com/yandex/mysync/internal/mysql/gtids"
	"github.com/yandex/mysync/verif/sim"
	"github.com/yandex/mysync/verif/world"
)

type prop struct {
	units func(tier string) int
	run   func(r *rec, tier string, seed int64, unit int)
	rule  string
	floor func(tier string) []string
	exh   bool
}

type rec struct {
	res   sim.ScenResult
	cover map[string]bool
	evals int
}

func (r *rec) violate(propID, sig, what string, witness ...string) {
	for _, v := range r.res.Violations {
		if v.Signature == sig {
			return
		}
	}
	r.res.Violations = append(r.res.Violations, sim.Violation{Property: propID, Signature: sig, What: what, Witness: witness})
}

func (r *rec) cov(f string, a ...any) { r.cover[fmt.Sprintf(f, a...)] = true }
func (r *rec) obs(f string, a ...any) {
	if len(r.res.Obs) < 12 {
		r.res.Obs = append(r.res.Obs, fmt.Sprintf(f, a...))
	}
}

var props = map[string]*prop{}

func tierN(tier string, q, t int) int {
	if tier == "thorough" {
		return t
	}
	return q
}

func TestMeta(t *testing.T) {
	id := os.Getenv("VERIF_PROP")
	if id == "" {
		t.Skip()
	}
	p := props[id]
	tier := os.Getenv("VERIF_TIER")
	m := map[string]any{"units": p.units(tier), "rule": p.rule, "exhaustive": p.exh,
		"assumptions": []string{"independent reference models in the harness (bitset / interval GTID sets, closed-form arithmetic, literal reading of the selection rule)"}}
	if p.floor != nil {
		m["floor"] = p.floor(tier)
	}
	b, _ := json.Marshal(m)
	fmt.Println("META " + string(b))
}

func TestJob(t *testing.T) {
	job, em := sim.OpenJob(t)
	if job == nil {
		t.Skip()
	}
	p := props[job.Property]
	if p == nil {
		t.Fatalf("unknown property %s", job.Property)
	}
	for _, u := range job.Units {
		name := fmt.Sprintf("%s-unit-%d", strings.ToLower(job.Property), u)
		if job.Only != "" && job.Only != name {
			continue
		}
		skip := false
		for _, sk := range job.Skip {
			if sk == name {
				skip = true
			}
		}
		if skip {
			em.Emit(map[string]any{"ev": "unit-start", "unit": u})
			em.Emit(map[string]any{"ev": "unit-end", "unit": u})
			continue
		}
		em.Emit(map[string]any{"ev": "unit-start", "unit": u})
		em.Emit(map[string]any{"ev": "start", "unit": u, "name": name})
		r := &rec{cover: map[string]bool{}}
		r.res = sim.ScenResult{Ev: "scen", Unit: u, Name: name}
		t0 := time.Now()
		p.run(r, job.Tier, job.Seed, u)
		r.res.RealS = time.Since(t0).Seconds()
		for k := range r.cover {
			r.res.Cover = append(r.res.Cover, k)
		}
		sort.Strings(r.res.Cover)
		r.res.Stats = map[string]int{"evaluations": r.evals}
		r.res.Verdict = "held"
		if len(r.res.Violations) > 0 {
			r.res.Verdict = "violated"
		} else if r.evals == 0 {
			r.res.Verdict, r.res.Why = "inconclusive", "nothing evaluated"
		}
		em.Emit(r.res)
		em.Emit(map[string]any{"ev": "unit-end", "unit": u})
	}
}

// ---------------------------------------------------------------------------------------------
// C12 quorum arithmetic

func c12Run(r *rec, tier string, seed int64, unit int) {
	maxN := 64
	for _, semi := range []bool{true, false} {
		for w := 0; w <= maxN; w++ {
			cfg, _ := config.DefaultConfig()
			cfg.SemiSync = semi
			cfg.RplSemiSyncMasterWaitForSlaveCount = w
			sh := mysql.NewSwitchHelper(&cfg)
			for n := 0; n <= maxN; n++ {
				c12Point(r, sh, n, w, semi)
			}
		}
	}
	// random points far beyond any deployable cluster
	rng := rand.New(rand.NewSource(seed))
	for i := 0; i < 400; i++ {
		n, w := rng.Intn(5000), rng.Intn(5000)
		cfg, _ := config.DefaultConfig()
		cfg.SemiSync = rng.Intn(2) == 0
		cfg.RplSemiSyncMasterWaitForSlaveCount = w
		c12Point(r, mysql.NewSwitchHelper(&cfg), n, w, cfg.SemiSync)
	}
	r.obs("grid n,w in [0,64] x semi-sync on/off evaluated exhaustively: %d points incl. 400 random large ones", r.evals)
}

func c12Point(r *rec, sh mysql.ISwitchHelper, n, w int, semi bool) {
	list := make([]string, n)
	for i := range list {
		list[i] = fmt.Sprintf("h%d", i)
	}
	req := sh.GetRequiredWaitSlaveCount(list)
	q := sh.GetFailoverQuorum(list)
	r.evals++
	replicas := n - 1
	if replicas < 0 {
		replicas = 0
	}
	at := fmt.Sprintf("n=%d w=%d semi=%v required=%d quorum=%d", n, w, semi, req, q)
	if req > replicas {
		r.violate("C12", "required>replicas", "acknowledgements demanded exceed the replicas in the list: "+at)
	}
	if req < 0 {
		r.violate("C12", "required<0", at)
	}
	if (req == 0) != (n < 2 || w == 0) {
		r.violate("C12", "required-zero-iff", "required count is zero exactly when the list has no replica or the configured count is zero: "+at)
	}
	if q < 1 {
		r.violate("C12", "quorum<1", at)
	}
	if q+req <= replicas {
		r.violate("C12", "quorum+required<=replicas", "a failover quorum can miss every acknowledging replica: "+at)
	}
	// CheckFailoverQuorum errs exactly below the quorum (semi-sync) resp. at zero (without)
	ks := []int{0, 1, q - 1, q, q + 1, n, n + 1}
	if n <= 8 {
		ks = ks[:0]
		for k := 0; k <= n+1; k++ {
			ks = append(ks, k)
		}
	}
	for _, k := range ks {
		if k < 0 {
			continue
		}
		err := sh.CheckFailoverQuorum(list, k)
		want := k < q
		if !semi {
			want = k == 0
		}
		if (err != nil) != want {
			r.violate("C12", "check-failover-quorum", fmt.Sprintf("CheckFailoverQuorum(%d alive) returned %v, expected error=%v: %s", k, err, want, at))
		}
	}
	if n <= 64 && w <= 64 {
		r.cov("n=%d|w=%d|semi=%v", n, w, semi)
	}
}

// ---------------------------------------------------------------------------------------------
// C13 GTID relations

var (
	u1 = "11111111-1111-1111-1111-111111111111"
	u2 = "22222222-2222-2222-2222-222222222222"
	u3 = "33333333-3333-3333-3333-333333333333"
)

type universe struct {
	name   string
	groups []Group
	k      int // transaction numbers 1..k
}

func (u universe) size() int { return 1 << uint(len(u.groups)*u.k) }

func (u universe) set(idx int) BSet {
	s := BSet{}
	for gi, g := range u.groups {
		m := uint64((idx>>uint(gi*u.k))&((1<<uint(u.k))-1)) << 1
		if m != 0 {
			s[g] = m
		}
	}
	return s
}

func c13Universes(tier string) []universe {
	k := tierN(tier, 4, 6)
	return []universe{
		{"2uuid", []Group{{u1, ""}, {u2, ""}}, k},
		{"3uuid", []Group{{u1, ""}, {u2, ""}, {u3, ""}}, 3},
		{"tagged", []Group{{u1, ""}, {u1, "blue"}, {u2, ""}}, 3},
	}
}

// c13 units: for each universe, the first-set index space is cut into slices; last units do lists and random sets.
func c13Plan(tier string) (slices []struct{ u, lo, hi int }, extra int) {
	us := c13Universes(tier)
	per := tierN(tier, 64, 256)
	for ui, u := range us {
		n := u.size()
		for lo := 0; lo < n; lo += per {
			hi := lo + per
			if hi > n {
				hi = n
			}
			slices = append(slices, struct{ u, lo, hi int }{ui, lo, hi})
		}
	}
	return slices, 4
}

func checkPair(r *rec, sB, mB BSet, s, m gtids.GTIDSet, sText, mText string) {
	r.evals++
	sub := sB.SubsetOf(mB)
	at := fmt.Sprintf("replica=%q source=%q", sText, mText)
	if got := gtids.IsSlaveBehindOrEqual(s, m); got != sub {
		r.violate("C13", "behind-or-equal", fmt.Sprintf("IsSlaveBehindOrEqual=%v but subset=%v for %s", got, sub, at))
	}
	if got := gtids.IsSlaveAhead(s, m); got != !sub {
		r.violate("C13", "ahead", fmt.Sprintf("IsSlaveAhead=%v but subset=%v for %s", got, sub, at))
	}
	// textual difference
	txt, err := gtids.GTIDDiff(s, m)
	if err != nil {
		r.violate("C13", "diff-error", fmt.Sprintf("GTIDDiff failed: %v for %s", err, at))
	} else {
		wantSrc, wantRep := mB.Minus(sB), sB.Minus(mB)
		var gotSrc, gotRep BSet
		var perr error
		kind := ""
		switch {
		case txt == "replica gtid equal source":
			kind, gotSrc, gotRep = "equal", BSet{}, BSet{}
		case strings.HasPrefix(txt, "split brain! source ahead on: "):
			kind = "split"
			rest := strings.TrimPrefix(txt, "split brain! source ahead on: ")
			parts := strings.SplitN(rest, "; replica ahead on: ", 2)
			if len(parts) != 2 {
				perr = fmt.Errorf("unparsable")
			} else {
				gotSrc, perr = ParseText(parts[0])
				if perr == nil {
					gotRep, perr = ParseText(parts[1])
				}
			}
		case strings.HasPrefix(txt, "source ahead on: "):
			kind = "source"
			gotSrc, perr = ParseText(strings.TrimPrefix(txt, "source ahead on: "))
			gotRep = BSet{}
		case strings.HasPrefix(txt, "replica ahead on: "):
			kind = "replica"
			gotRep, perr = ParseText(strings.TrimPrefix(txt, "replica ahead on: "))
			gotSrc = BSet{}
		default:
			perr = fmt.Errorf("unknown form")
		}
		if perr != nil {
			r.violate("C13", "diff-text", fmt.Sprintf("GTIDDiff text %q not understood (%v) for %s", txt, perr, at))
		} else {
			wantKind := map[[2]bool]string{{true, true}: "equal", {false, true}: "source", {true, false}: "replica", {false, false}: "split"}[[2]bool{wantSrc.Empty(), wantRep.Empty()}]
			if kind != wantKind || !gotSrc.Equal(wantSrc) || !gotRep.Equal(wantRep) {
				r.violate("C13", "diff-content", fmt.Sprintf("GTIDDiff says %q; expected case %s with source\\replica=%q replica\\source=%q for %s", txt, wantKind, wantSrc.Text(), wantRep.Text(), at))
			}
		}
	}
	// split brain, for every choice of the master's uuid
	for _, mu := range []string{u1, u2, u3} {
		got := gtids.IsSplitBrained(s, m, uuid.MustParse(mu))
		if sub && got {
			r.violate("C13", "splitbrain-on-subset", fmt.Sprintf("IsSplitBrained=true although the replica's set is a subset (master uuid %s) for %s", mu, at))
		}
		foreign := false
		for g, d := range sB.Minus(mB) {
			if d != 0 && g.UUID != mu {
				foreign = true
			}
		}
		if foreign && !got {
			r.violate("C13", "splitbrain-missed", fmt.Sprintf("IsSplitBrained=false although the replica holds a transaction the master lacks that did not originate on the master (master uuid %s) for %s", mu, at))
		}
	}
}

func checkList(r *rec, sets []BSet, lags []float64) {
	r.evals++
	in := make([]app.VerifPos, len(sets))
	for i, s := range sets {
		in[i] = app.VerifPos{Host: fmt.Sprintf("h%d", i), GTIDs: s.Text(), Lag: lags[i]}
	}
	host, gt, split := app.VerifFindMostRecent(in)
	exists := false
	for i := range sets {
		all := true
		for j := range sets {
			if !sets[j].SubsetOf(sets[i]) {
				all = false
			}
		}
		if all {
			exists = true
		}
	}
	var texts []string
	for _, s := range sets {
		texts = append(texts, s.Text())
	}
	at := fmt.Sprintf("positions=%q", texts)
	if split == exists {
		r.violate("C13", "most-recent-splitbrain-flag", fmt.Sprintf("split brain reported=%v but a node containing all others exists=%v for %s", split, exists, at))
		return
	}
	if !split {
		idx := -1
		fmt.Sscanf(host, "h%d", &idx)
		if idx < 0 || idx >= len(sets) {
			r.violate("C13", "most-recent-not-a-candidate", fmt.Sprintf("returned %q for %s", host, at))
			return
		}
		for j := range sets {
			if !sets[j].SubsetOf(sets[idx]) {
				r.violate("C13", "most-recent-not-maximal", fmt.Sprintf("returned %s whose set does not contain h%d's for %s", host, j, at))
			}
		}
		got, err := ParseText(gt)
		if err != nil || !got.Equal(sets[idx]) {
			r.violate("C13", "most-recent-set", fmt.Sprintf("returned set %q differs from %s's for %s", gt, host, at))
		}
	}
	r.cov("list|len=%d|split=%v", len(sets), split)
}

func c13Run(r *rec, tier string, seed int64, unit int) {
	slices, _ := c13Plan(tier)
	us := c13Universes(tier)
	if unit < len(slices) {
		sl := slices[unit]
		u := us[sl.u]
		n := u.size()
		parsed := make([]gtids.GTIDSet, n)
		texts := make([]string, n)
		bsets := make([]BSet, n)
		for i := 0; i < n; i++ {
			bsets[i] = u.set(i)
			texts[i] = bsets[i].Text()
			parsed[i] = gtids.ParseGtidSet(texts[i])
		}
		// thorough: all ordered pairs; quick: the 2uuid universe fully (256 sets), others against a seeded sample
		rng := rand.New(rand.NewSource(seed + int64(unit)))
		for i := sl.lo; i < sl.hi; i++ {
			if tier == "thorough" || n <= 256 {
				for j := 0; j < n; j++ {
					checkPair(r, bsets[i], bsets[j], parsed[i], parsed[j], texts[i], texts[j])
				}
			} else {
				for c := 0; c < 96; c++ {
					j := rng.Intn(n)
					checkPair(r, bsets[i], bsets[j], parsed[i], parsed[j], texts[i], texts[j])
				}
			}
		}
		r.cov("pairs|%s|slice=%d", u.name, sl.lo)
		r.obs("universe %s (%d groups x gno 1..%d = %d sets): first sets %d..%d against %s", u.name, len(u.groups), u.k, n, sl.lo, sl.hi-1,
			map[bool]string{true: "all sets", false: "96 seeded sets each"}[tier == "thorough" || n <= 256])
		return
	}
	extra := unit - len(slices)
	rng := rand.New(rand.NewSource(seed*7919 + int64(extra)))
	switch extra {
	case 0: // exhaustive lists of length 1..3 over a 64-set universe
		u := universe{"lists", []Group{{u1, ""}, {u2, ""}}, 3}
		n := u.size()
		bs := make([]BSet, n)
		for i := range bs {
			bs[i] = u.set(i)
		}
		for i := 0; i < n; i++ {
			checkList(r, []BSet{bs[i]}, []float64{0})
			for j := 0; j < n; j++ {
				checkList(r, []BSet{bs[i], bs[j]}, []float64{1, 0})
				if tier == "thorough" {
					for k := 0; k < n; k++ {
						checkList(r, []BSet{bs[i], bs[j], bs[k]}, []float64{0, 2, 1})
					}
				}
			}
		}
		r.obs("all position lists of length 1-2%s over 64 sets", map[bool]string{true: " and 3", false: ""}[tier == "thorough"])
	case 1: // random lists of length 3..5 incl. tagged groups
		u := universe{"lists5", []Group{{u1, ""}, {u1, "blue"}, {u2, ""}}, 3}
		cnt := tierN(tier, 40000, 600000)
		for c := 0; c < cnt; c++ {
			l := 3 + rng.Intn(3)
			sets := make([]BSet, l)
			lags := make([]float64, l)
			base := u.set(rng.Intn(u.size()))
			for i := range sets {
				switch rng.Intn(3) {
				case 0:
					sets[i] = u.set(rng.Intn(u.size()))
				case 1: // a subset of base (chains are the common case in production)
					sets[i] = base.Minus(u.set(rng.Intn(u.size())))
				default:
					sets[i] = base.Union(u.set(rng.Intn(u.size()) & rng.Intn(u.size())))
				}
				lags[i] = float64(rng.Intn(3))
			}
			checkList(r, sets, lags)
		}
		r.obs("%d random position lists of length 3-5 over a tagged universe", cnt)
	case 2, 3: // random large sets with gaps, interval reference model
		cnt := tierN(tier, 20000, 400000)
		for c := 0; c < cnt; c++ {
			a, b := randBig(rng), randBig(rng)
			if rng.Intn(3) == 0 {
				b = a.Clone()
				b.Union(randBig(rng))
			}
			if rng.Intn(5) == 0 {
				a, b = b, a
			}
			checkBig(r, a, b)
		}
		r.cov("bigsets|unit=%d", extra)
		r.obs("%d random pairs of large sets (up to 3 uuids, up to 12 intervals each, gno up to 10^6) against the interval reference", cnt)
	}
}

func randBig(rng *rand.Rand) world.GTIDSet {
	s := world.NewSet()
	for _, u := range []string{u1, u2, u3} {
		if rng.Intn(4) == 0 {
			continue
		}
		n := 1 + rng.Intn(12)
		pos := int64(1)
		if rng.Intn(2) == 0 {
			pos += int64(rng.Intn(1000000))
		}
		for i := 0; i < n; i++ {
			l := int64(1 + rng.Intn(50))
			if rng.Intn(8) == 0 {
				l = 1
			}
			s.AddRange(u, pos, pos+l-1)
			pos += l + int64(1+rng.Intn(20))
			if rng.Intn(6) == 0 {
				pos += int64(rng.Intn(100000))
			}
		}
	}
	return s
}

func checkBig(r *rec, sW, mW world.GTIDSet) {
	r.evals++
	sT, mT := sW.OneLine(), mW.OneLine()
	s, m := gtids.ParseGtidSet(sT), gtids.ParseGtidSet(mT)
	sub := sW.SubsetOf(mW)
	at := fmt.Sprintf("replica=%q source=%q", sT, mT)
	if got := gtids.IsSlaveBehindOrEqual(s, m); got != sub {
		r.violate("C13", "behind-or-equal", fmt.Sprintf("IsSlaveBehindOrEqual=%v but subset=%v for %s", got, sub, at))
	}
	if got := gtids.IsSlaveAhead(s, m); got != !sub {
		r.violate("C13", "ahead", fmt.Sprintf("IsSlaveAhead=%v but subset=%v for %s", got, sub, at))
	}
	txt, err := gtids.GTIDDiff(s, m)
	if err != nil {
		r.violate("C13", "diff-error", fmt.Sprintf("GTIDDiff failed: %v for %s", err, at))
		return
	}
	wantSrc, wantRep := mW.Minus(sW), sW.Minus(mW)
	want := ""
	switch {
	case wantSrc.Empty() && wantRep.Empty():
		want = "replica gtid equal source"
	case wantRep.Empty():
		want = "source ahead on: " + wantSrc.OneLine()
	case wantSrc.Empty():
		want = "replica ahead on: " + wantRep.OneLine()
	default:
		want = "split brain! source ahead on: " + wantSrc.OneLine() + "; replica ahead on: " + wantRep.OneLine()
	}
	if txt != want {
		// compare as sets rather than text before complaining
		norm := func(x string) string {
			for _, p := range []string{"split brain! ", "source ahead on: ", "replica ahead on: "} {
				x = strings.ReplaceAll(x, p, "|")
			}
			var out []string
			for _, f := range strings.Split(x, "|") {
				f = strings.TrimSuffix(strings.TrimSpace(f), ";")
				if ps, err := world.ParseSet(f); err == nil {
					out = append(out, ps.OneLine())
				} else {
					out = append(out, f)
				}
			}
			return strings.Join(out, "|")
		}
		if norm(txt) != norm(want) || strings.HasPrefix(txt, "split") != strings.HasPrefix(want, "split") || strings.HasPrefix(txt, "source") != strings.HasPrefix(want, "source") {
			r.violate("C13", "diff-content", fmt.Sprintf("GTIDDiff says %q, expected %q for %s", txt, want, at))
		}
	}
	for _, mu := range []string{u1, u2} {
		got := gtids.IsSplitBrained(s, m, uuid.MustParse(mu))
		if sub && got {
			r.violate("C13", "splitbrain-on-subset", fmt.Sprintf("IsSplitBrained=true on a subset (master uuid %s) for %s", mu, at))
		}
		foreign := false
		for u, ivs := range wantRep {
			if len(ivs) > 0 && u != mu {
				foreign = true
			}
		}
		if foreign && !got {
			r.violate("C13", "splitbrain-missed", fmt.Sprintf("IsSplitBrained=false with a foreign extra transaction (master uuid %s) for %s", mu, at))
		}
	}
}

// ---------------------------------------------------------------------------------------------
// C14 candidate selection

type cand struct {
	host string
	prio int64
	lag  float64
	set  BSet
}

const unknownLag = 99999999

func c14Sets() []BSet {
	mk := func(m1, m2 uint64) BSet {
		s := BSet{}
		if m1 != 0 {
			s[Group{u1, ""}] = m1 << 1
		}
		if m2 != 0 {
			s[Group{u2, ""}] = m2 << 1
		}
		return s
	}
	// a chain X1 ⊂ X2 ⊂ X3 and an antichain Y1, Y2 (incomparable with each other and with X3)
	return []BSet{mk(0b1, 0), mk(0b11, 0), mk(0b111, 0b1), mk(0b11, 0b110), mk(0b1011, 0)}
}

func dominated(c cand, by cand) bool {
	if by.set.Equal(c.set) {
		return by.lag < c.lag
	}
	return c.set.SubsetOf(by.set)
}

func c14Check(r *rec, logger *log.Logger, cs []cand, from string, bound time.Duration) {
	r.evals++
	in := make([]app.VerifPos, len(cs))
	for i, c := range cs {
		in[i] = app.VerifPos{Host: c.host, GTIDs: c.set.Text(), Lag: c.lag, Priority: c.prio}
	}
	type out struct {
		host string
		err  error
	}
	ch := make(chan out, 1)
	go func() {
		h, err := app.VerifMostDesirable(logger, in, from, bound)
		ch <- out{h, err}
	}()
	var o out
	select {
	case o = <-ch:
	case <-time.After(20 * time.Second):
		r.violate("C14", "no-termination", fmt.Sprintf("selection did not return within 20 s for %v from=%q bound=%v", in, from, bound))
		return
	}
	var offered []cand
	for _, c := range cs {
		if c.host != from {
			offered = append(offered, c)
		}
	}
	at := fmt.Sprintf("candidates=%+v from=%q bound=%v -> %q err=%v", in, from, bound, o.host, o.err)
	if len(offered) == 0 {
		if o.err == nil {
			r.violate("C14", "no-error-on-empty", at)
		}
		r.cov("empty|from=%v", from != "")
		return
	}
	if o.err != nil {
		r.violate("C14", "error-with-candidates", at)
		return
	}
	var res *cand
	for i := range offered {
		if offered[i].host == o.host {
			res = &offered[i]
		}
	}
	if res == nil {
		if o.host == from && from != "" {
			r.violate("C14", "returned-from-host", at)
		} else {
			r.violate("C14", "not-a-candidate", at)
		}
		return
	}
	b := bound.Seconds()
	maxP := offered[0].prio
	for _, c := range offered {
		if c.prio > maxP {
			maxP = c.prio
		}
	}
	var tops []cand
	for _, c := range offered {
		if c.prio != maxP {
			continue
		}
		dom := false
		for _, d := range offered {
			if d.prio == maxP && d.host != c.host && dominated(c, d) {
				dom = true
			}
		}
		if !dom {
			tops = append(tops, c)
		}
	}
	ok := false
	for _, t := range tops {
		if t.lag <= b && res.host == t.host {
			ok = true
		}
		if t.lag > b && (res.host == t.host || res.lag < t.lag-b) {
			ok = true
		}
	}
	// identical candidates (same set, lag) may stand in for each other
	if !ok {
		for _, t := range tops {
			if t.set.Equal(res.set) && t.lag == res.lag && t.prio == res.prio {
				ok = true
			}
		}
	}
	if !ok {
		r.violate("C14", "priority-within-bound", "result is neither the highest-priority candidate (within the bound) nor one whose lag is smaller by more than the bound: "+at)
	}
	// equal priorities, all lags within the bound, chain-ordered sets => the most recent node
	eq, within, chain := true, true, true
	for _, c := range offered {
		if c.prio != offered[0].prio {
			eq = false
		}
		if c.lag > b {
			within = false
		}
		for _, d := range offered {
			if !c.set.SubsetOf(d.set) && !d.set.SubsetOf(c.set) {
				chain = false
			}
		}
	}
	if eq && within && chain {
		for _, c := range offered {
			if !c.set.SubsetOf(res.set) {
				r.violate("C14", "equal-priority-most-recent", "with equal priorities and lags within the bound the result is not the most recent node: "+at)
			}
		}
	}
	r.cov("n=%d|from=%v|b=%v|tops=%d|toplag>b=%v|eq=%v|chain=%v", len(offered), from != "", b, len(tops), tops[0].lag > b, eq, chain)
}

func c14Run(r *rec, tier string, seed int64, unit int) {
	logger, closer, _, err := log.Open(os.DevNull, "error", 100, 50*time.Millisecond)
	if err != nil {
		panic(err)
	}
	defer closer.Close()
	sets := c14Sets()
	bounds := []time.Duration{0, 60 * time.Second, time.Hour}
	prios := []int64{0, 1, 5}
	bound := bounds[unit%3]
	b := bound.Seconds()
	lags := []float64{0, b - 1, b, b + 1, 2*b + 1, unknownLag}
	if b == 0 {
		lags = []float64{0, 1, 2, unknownLag}
	}
	var pool []cand
	for _, p := range prios {
		for _, l := range lags {
			if l < 0 {
				continue
			}
			for _, s := range sets {
				pool = append(pool, cand{prio: p, lag: l, set: s})
			}
		}
	}
	name := func(cs []cand) []cand {
		out := make([]cand, len(cs))
		for i, c := range cs {
			c.host = fmt.Sprintf("h%d", i)
			out[i] = c
		}
		return out
	}
	part := unit / 3
	switch part {
	case 0: // exhaustive: lengths 0,1,2 with and without a from host
		c14Check(r, logger, nil, "", bound)
		c14Check(r, logger, nil, "h0", bound)
		for _, a := range pool {
			c14Check(r, logger, name([]cand{a}), "", bound)
			c14Check(r, logger, name([]cand{a}), "h0", bound)
			for _, c := range pool {
				cs := name([]cand{a, c})
				c14Check(r, logger, cs, "", bound)
				c14Check(r, logger, cs, "h1", bound)
			}
		}
		r.obs("bound %v: all lists of length 0-2 over %d candidate shapes, with and without a from host", bound, len(pool))
	default: // random lists of 3..5
		rng := rand.New(rand.NewSource(seed*31 + int64(unit)))
		cnt := tierN(tier, 30000, 500000)
		for i := 0; i < cnt; i++ {
			l := 3 + rng.Intn(3)
			cs := make([]cand, l)
			for j := range cs {
				cs[j] = pool[rng.Intn(len(pool))]
				if rng.Intn(4) == 0 { // arbitrary lags too
					cs[j].lag = float64(rng.Intn(int(3*b) + 5))
				}
			}
			cs = name(cs)
			from := ""
			if rng.Intn(2) == 0 {
				from = cs[rng.Intn(l)].host
			}
			c14Check(r, logger, cs, from, bound)
		}
		r.obs("bound %v: %d random lists of 3-5 candidates (priorities {0,1,5}, lags around the bound and unknown, chain and antichain sets)", bound, cnt)
	}
}

func init() {
	props["C12"] = &prop{units: func(string) int { return 1 }, run: c12Run, exh: true,
		rule: "every list size n in [0,64] x configured count w in [0,64] x semi-sync on/off (8450 grid points, enumerated completely) plus 400 random points up to 5000; at each point the five arithmetic obligations and CheckFailoverQuorum for alive counts around the quorum; distinct = grid point"}
	props["C13"] = &prop{units: func(tier string) int { s, e := c13Plan(tier); return len(s) + e }, run: c13Run,
		rule:  "ordered pairs of GTID sets over small universes (2 uuids x gno 1..4|6, 3 uuids x gno 1..3, a tagged universe) compared with a bitset reference: subset, negation, textual difference re-parsed, split-brain both directions for every master uuid; position lists of length 1-5 for the most-recent choice; random large sets with gaps against an interval reference; distinct = (universe, slice) and (list length, split) classes",
		floor: func(string) []string { return nil }}
	props["C14"] = &prop{units: func(string) int { return 6 }, run: c14Run,
		rule: "candidate lists of 0-5 nodes over priorities {0,1,5} x lags {0,b-1,b,b+1,2b+1,unknown} x a chain and an antichain of GTID sets x bounds {0,60s,1h}, exhaustive up to length 2, random beyond; oracle = the statement read literally with a per-call termination watchdog; distinct by (n, from used, bound, number of tops, top beyond bound, equal priorities, chain)"}
}
