// Package zkb runs real zkDCS clients (internal/dcs/zk.go over the real go-zookeeper client)
// against the fake ZooKeeper inside a synctest bubble and checks client-boundary histories:
// the data-plane contract (C15) and the lock service (C03).
package zkb

import (
	"context"
	"encoding/json"
	"errors"
	"fmt"
	"math/rand"
	"net"
	"os"
	"sort"
	"strings"
	"sync"
	"testing"
	"testing/synctest"
	"time"

	"github.com/anishathalye/porcupine"

	"github.com/yandex/mysync/internal/dcs"
	"github.com/yandex/mysync/internal/log"
	"github.com/yandex/mysync/verif/fakezk"
	"github.com/yandex/mysync/verif/sim"
)

const ns = "/t"

type client struct {
	name string
	d    dcs.DCS
	cl   func()
}

type rig struct {
	zk      *fakezk.Server
	clients []*client
	ctx     context.Context
	cancel  context.CancelFunc
}

func newRig(t *testing.T, n int, ttl, sessTimeout time.Duration) *rig {
	r := &rig{zk: fakezk.New()}
	r.ctx, r.cancel = context.WithCancel(context.Background())
	r.zk.Put("setup", ns, "")
	for i := 0; i < n; i++ {
		r.add(t, fmt.Sprintf("c%d", i+1), ttl, sessTimeout)
	}
	return r
}

func (r *rig) add(t *testing.T, name string, ttl, sessTimeout time.Duration) *client {
	cfg, _ := dcs.DefaultZookeeperConfig()
	cfg.Hostname = name
	cfg.Namespace = ns
	cfg.Hosts = []string{"zk1:2181"}
	cfg.SessionTimeout = sessTimeout
	cfg.LockHeldTTL = ttl
	cfg.BackoffMaxRetries = 2
	cfg.BackoffInterval = 50 * time.Millisecond
	cfg.BackoffMaxInterval = 200 * time.Millisecond
	cfg.BackoffMaxElapsedTime = 2 * time.Second
	logger, closer, _, err := log.Open(os.DevNull, "error", 100, 200*time.Millisecond)
	if err != nil {
		t.Fatal(err)
	}
	ctx := r.ctx
	d, err := dcs.NewZookeeperVerif(ctx, &cfg, logger, func(network, address string, timeout time.Duration) (net.Conn, error) {
		if ctx.Err() != nil {
			time.Sleep(5 * time.Millisecond)
			a, b := net.Pipe()
			b.Close()
			return a, nil
		}
		c, err := r.zk.Dial(name)
		if err != nil {
			time.Sleep(20 * time.Millisecond)
		}
		return c, err
	})
	if err != nil {
		t.Fatal(err)
	}
	c := &client{name: name, d: d, cl: func() { closer.Close() }}
	r.clients = append(r.clients, c)
	return c
}

func (r *rig) stop() {
	r.cancel()
	for _, c := range r.clients {
		c.d.Close()
		c.cl()
	}
	r.zk.Shutdown()
}

// ---------------------------------------------------------------------------------------------

type rec struct {
	res   sim.ScenResult
	cover map[string]bool
	evals int
}

func (r *rec) violate(prop, sig, what string, witness ...string) {
	for _, v := range r.res.Violations {
		if v.Signature == sig {
			return
		}
	}
	if len(witness) > 80 {
		witness = witness[len(witness)-80:]
	}
	r.res.Violations = append(r.res.Violations, sim.Violation{Property: prop, Signature: sig, What: what, Witness: witness})
}
func (r *rec) cov(f string, a ...any) { r.cover[fmt.Sprintf(f, a...)] = true }
func (r *rec) obs(f string, a ...any) {
	if len(r.res.Obs) < 12 {
		r.res.Obs = append(r.res.Obs, fmt.Sprintf(f, a...))
	}
}

type prop struct {
	units func(tier string) int
	run   func(t *testing.T, r *rec, tier string, seed int64, unit int)
	rule  string
	floor []string
}

var props = map[string]*prop{}

func tierN(tier string, q, t int) int {
	if tier == "thorough" {
		return t
	}
	return q
}

func TestMeta(t *testing.T) {
	id := os.Getenv("VERIF_PROP")
	if id == "" {
		t.Skip()
	}
	p := props[id]
	m := map[string]any{"units": p.units(os.Getenv("VERIF_TIER")), "rule": p.rule, "floor": p.floor,
		"assumptions": []string{"fake ZooKeeper: single linearizable server, ephemeral deletion atomic with expiry (Z1)", "virtual time: no process pauses", "go-zookeeper client and zk.go run unmodified except for the injected dialer and static host provider (verif hook)"}}
	b, _ := json.Marshal(m)
	fmt.Println("META " + string(b))
}

func TestJob(t *testing.T) {
	job, em := sim.OpenJob(t)
	if job == nil {
		t.Skip()
	}
	p := props[job.Property]
	if p == nil {
		t.Fatalf("unknown property %s", job.Property)
	}
	for _, u := range job.Units {
		name := fmt.Sprintf("%s-unit-%d", strings.ToLower(job.Property), u)
		skip := job.Only != "" && job.Only != name
		for _, sk := range job.Skip {
			if sk == name {
				skip = true
			}
		}
		em.Emit(map[string]any{"ev": "unit-start", "unit": u})
		if !skip {
			em.Emit(map[string]any{"ev": "start", "unit": u, "name": name})
			r := &rec{cover: map[string]bool{}}
			r.res = sim.ScenResult{Ev: "scen", Unit: u, Name: name}
			t0 := time.Now()
			func() {
				defer func() {
					if x := recover(); x != nil {
						msg := fmt.Sprint(x)
						if strings.Contains(msg, "deadlock: main bubble goroutine has exited") {
							r.res.Leaked = []string{"goroutines left at tear-down"}
						} else {
							r.res.Why = "panic: " + msg
						}
					}
				}()
				synctest.Test(t, func(t *testing.T) { p.run(t, r, job.Tier, job.Seed, u) })
			}()
			r.res.RealS = time.Since(t0).Seconds()
			for k := range r.cover {
				r.res.Cover = append(r.res.Cover, k)
			}
			sort.Strings(r.res.Cover)
			r.res.Stats = map[string]int{"evaluations": r.evals}
			switch {
			case len(r.res.Violations) > 0:
				r.res.Verdict = "violated"
			case r.res.Why != "" || r.evals == 0:
				r.res.Verdict = "inconclusive"
				if r.res.Why == "" {
					r.res.Why = "nothing evaluated"
				}
			default:
				r.res.Verdict = "held"
			}
			em.Emit(r.res)
		}
		em.Emit(map[string]any{"ev": "unit-end", "unit": u})
	}
}

// ---------------------------------------------------------------------------------------------
// C15 reference tree

type mnode struct {
	data string
	eph  string // owning client, "" = plain
}

type model struct{ nodes map[string]*mnode }

func norm(p string) string {
	var parts []string
	for _, x := range strings.Split(p, "/") {
		if x != "" {
			parts = append(parts, x)
		}
	}
	return strings.Join(parts, "/")
}

func parent(p string) string {
	if i := strings.LastIndex(p, "/"); i >= 0 {
		return p[:i]
	}
	return ""
}

func (m *model) exists(p string) bool { return p == "" || m.nodes[p] != nil }

func (m *model) children(p string) []string {
	var out []string
	pre := p + "/"
	if p == "" {
		pre = ""
	}
	for k := range m.nodes {
		if strings.HasPrefix(k, pre) && k != p && !strings.Contains(k[len(pre):], "/") {
			out = append(out, k[len(pre):])
		}
	}
	sort.Strings(out)
	return out
}

func (m *model) dropClient(c string) {
	for k, n := range m.nodes {
		if n.eph == c {
			delete(m.nodes, k)
		}
	}
}

var c15Keys = []string{"a", "a/b", "a/b/c", "d", "d/e", "f"}
var c15Spell = []func(string) string{
	func(p string) string { return p },
	func(p string) string { return "/" + p },
	func(p string) string { return p + "/" },
	func(p string) string { return "//" + strings.ReplaceAll(p, "/", "//") + "//" },
}
var c15Ops = []string{"Create", "CreateEphemeral", "Set", "SetEphemeral", "Get", "Delete", "GetChildren", "GetTree", "RawPut", "RawDelete"}

func kind(err error) string {
	switch {
	case err == nil:
		return "ok"
	case errors.Is(err, dcs.ErrExists):
		return "exists"
	case errors.Is(err, dcs.ErrNotFound):
		return "notfound"
	case errors.Is(err, dcs.ErrMalformed):
		return "malformed"
	}
	return "error"
}

func c15Sequential(t *testing.T, r *rec, tier string, seed int64, unit int) {
	rng := rand.New(rand.NewSource(seed*1009 + int64(unit)))
	nc := 1 + rng.Intn(3)
	rg := newRig(t, nc, 30*time.Second, 3*time.Second)
	defer rg.stop()
	for _, c := range rg.clients {
		if !c.d.WaitConnected(5 * time.Second) {
			r.res.Why = "client did not connect"
			return
		}
	}
	m := &model{nodes: map[string]*mnode{}}
	var trace []string
	steps := tierN(tier, 400, 1500)
	for i := 0; i < steps; i++ {
		c := rg.clients[rng.Intn(nc)]
		key := c15Keys[rng.Intn(len(c15Keys))]
		path := c15Spell[rng.Intn(len(c15Spell))](key)
		op := c15Ops[rng.Intn(len(c15Ops))]
		val := map[string]any{"v": i, "by": c.name}
		vb, _ := json.Marshal(val)
		want, got := "", ""
		var gotVal string
		r.evals++
		n := m.nodes[key]
		par := parent(key)
		parOK := m.exists(par)
		parEph := par != "" && m.nodes[par] != nil && m.nodes[par].eph != ""
		switch op {
		case "Create", "CreateEphemeral":
			eph := op == "CreateEphemeral"
			switch {
			case n != nil:
				want = "exists"
			case !parOK || parEph:
				want = "error"
			default:
				want = "ok"
				m.nodes[key] = &mnode{data: string(vb)}
				if eph {
					m.nodes[key].eph = c.name
				}
			}
			if eph {
				got = kind(c.d.CreateEphemeral(path, val))
			} else {
				got = kind(c.d.Create(path, val))
			}
		case "Set", "SetEphemeral":
			eph := op == "SetEphemeral"
			// ancestors that are ephemeral (or missing below an ephemeral) make parent creation fail
			blocked := false
			for a := par; a != ""; a = parent(a) {
				if m.nodes[a] != nil && m.nodes[a].eph != "" {
					blocked = true
				}
			}
			switch {
			case n != nil && eph && n.eph == "":
				want = "error" // a plain key is never silently turned into an ephemeral one
			case n != nil:
				want = "ok"
				n.data = string(vb)
			case blocked:
				want = "error"
			default:
				want = "ok"
				for a := par; a != "" && m.nodes[a] == nil; a = parent(a) {
					m.nodes[a] = &mnode{data: ""}
				}
				m.nodes[key] = &mnode{data: string(vb)}
				if eph {
					m.nodes[key].eph = c.name
				}
			}
			if eph {
				got = kind(c.d.SetEphemeral(path, val))
			} else {
				got = kind(c.d.Set(path, val))
			}
		case "Get":
			var dest any
			err := c.d.Get(path, &dest)
			got = kind(err)
			switch {
			case n == nil:
				want = "notfound"
			case !json.Valid([]byte(n.data)):
				want = "malformed"
			default:
				want = "ok"
				b, _ := json.Marshal(dest)
				gotVal = string(b)
				var wv any
				_ = json.Unmarshal([]byte(n.data), &wv)
				wb, _ := json.Marshal(wv)
				if got == "ok" && gotVal != string(wb) {
					r.violate("C15", "get-wrong-value", fmt.Sprintf("Get(%q) by %s returned %s, the key holds %s", path, c.name, gotVal, n.data), trace...)
				}
			}
		case "Delete":
			switch {
			case n == nil:
				want = "ok"
			case len(m.children(key)) > 0:
				want = "error"
			default:
				want = "ok"
				delete(m.nodes, key)
			}
			got = kind(c.d.Delete(path))
		case "GetChildren":
			ch, err := c.d.GetChildren(path)
			got = kind(err)
			if n == nil {
				want = "notfound"
			} else {
				want = "ok"
				if got == "ok" && fmt.Sprint(ch) != fmt.Sprint(m.children(key)) && !(len(ch) == 0 && len(m.children(key)) == 0) {
					r.violate("C15", "children-wrong", fmt.Sprintf("GetChildren(%q) returned %v, expected %v", path, ch, m.children(key)), trace...)
				}
			}
		case "GetTree":
			_, err := c.d.GetTree(path)
			got = kind(err)
			if n == nil {
				want = "error"
				if got == "notfound" {
					got = "error"
				}
			} else {
				want = "ok"
			}
		case "RawPut":
			// a value written behind mysync's back, possibly not JSON
			raw := []string{`not json`, `{"a":`, ``, `"str"`, `42`}[rng.Intn(5)]
			if n != nil {
				rg.zk.Put("external", ns+"/"+key, raw)
				n.data = raw
			} else if parOK && !parEph {
				rg.zk.Put("external", ns+"/"+key, raw)
				m.nodes[key] = &mnode{data: raw}
			}
			want, got = "ok", "ok"
		case "RawDelete":
			if n != nil && len(m.children(key)) == 0 {
				rg.zk.Remove("external", ns+"/"+key)
				delete(m.nodes, key)
			}
			want, got = "ok", "ok"
		}
		trace = append(trace, fmt.Sprintf("%d %s %s(%q) -> %s (expected %s)", i, c.name, op, path, got, want))
		if got != want {
			r.violate("C15", "sequential:"+op+":"+want+"-vs-"+got, fmt.Sprintf("%s %s(%q): returned %s, the reference tree says %s (key present=%v ephemeral=%v parent present=%v)", c.name, op, path, got, want, n != nil, n != nil && n.eph != "", parOK), trace...)
			return
		}
		st := "absent"
		if n != nil {
			st = "plain"
			if n.eph != "" {
				st = "ephemeral"
			}
			if !json.Valid([]byte(n.data)) {
				st += "-malformed"
			}
		}
		r.cov("%s|%s|spell=%v", op, st, path != key)
		// the server must agree with the reference about what is ephemeral
		if i%25 == 0 {
			for k, mn := range m.nodes {
				ni := rg.zk.Stat(ns + "/" + k)
				if ni == nil || (ni.Eph != 0) != (mn.eph != "") {
					r.violate("C15", "ephemeral-flag-mismatch", fmt.Sprintf("key %s: server says %+v, reference ephemeral owner %q", k, ni, mn.eph), trace...)
				}
			}
		}
		// now and then a client dies: its ephemerals must be gone within the session timeout, a new session can recreate them
		if rng.Intn(90) == 0 && nc > 1 {
			victim := rg.clients[rng.Intn(nc)]
			rg.zk.Cut(victim.name, true)
			time.Sleep(3*time.Second + 100*time.Millisecond)
			for k, mn := range m.nodes {
				if mn.eph == victim.name && rg.zk.Stat(ns+"/"+k) != nil {
					r.violate("C15", "ephemeral-outlives-session", fmt.Sprintf("ephemeral key %s of the cut-off client %s still exists one session timeout later", k, victim.name), trace...)
				}
			}
			m.dropClient(victim.name)
			rg.zk.Cut(victim.name, false)
			victim.d.WaitConnected(10 * time.Second)
			time.Sleep(200 * time.Millisecond)
			trace = append(trace, fmt.Sprintf("%d %s cut off for a session timeout and back", i, victim.name))
			r.cov("client-death-and-return")
		}
	}
	r.obs("%d sequential operations by %d clients over %d keys x 4 spellings against the reference tree; last: %s", steps, nc, len(c15Keys), trace[len(trace)-1])
}

// --- concurrent mode: porcupine per key on a register-with-existence model ---

type kvIn struct {
	Op  string
	Key string
	Val string
}
type kvOut struct {
	Res string // ok exists notfound malformed error
	Val string
}
type kvState struct {
	Exists bool
	Val    string
}

func kvModel() porcupine.Model {
	nm := porcupine.NondeterministicModel{
		Partition: func(h []porcupine.Operation) [][]porcupine.Operation {
			by := map[string][]porcupine.Operation{}
			for _, o := range h {
				by[o.Input.(kvIn).Key] = append(by[o.Input.(kvIn).Key], o)
			}
			var out [][]porcupine.Operation
			for _, v := range by {
				out = append(out, v)
			}
			return out
		},
		Init: func() []any { return []any{kvState{}} },
		Step: func(st, in, out any) []any {
			s, i, o := st.(kvState), in.(kvIn), out.(kvOut)
			applied := kvState{true, i.Val}
			switch i.Op {
			case "Create":
				switch o.Res {
				case "ok":
					if !s.Exists {
						return []any{applied}
					}
				case "exists":
					if s.Exists {
						return []any{s}
					}
				case "error", "open": // reply lost or conflict: may or may not have applied
					if s.Exists {
						return []any{s}
					}
					return []any{s, applied}
				}
			case "Set":
				switch o.Res {
				case "ok":
					return []any{applied}
				case "error", "open":
					return []any{s, applied}
				}
			case "Get":
				switch o.Res {
				case "ok":
					if s.Exists && s.Val == o.Val {
						return []any{s}
					}
				case "notfound":
					if !s.Exists {
						return []any{s}
					}
				case "error", "open":
					return []any{s}
				}
			case "Delete":
				switch o.Res {
				case "ok":
					return []any{kvState{}}
				case "error", "open":
					return []any{s, kvState{}}
				}
			}
			return nil
		},
		Equal: func(a, b any) bool { return a.(kvState) == b.(kvState) },
	}
	return nm.ToModel()
}

func c15Concurrent(t *testing.T, r *rec, tier string, seed int64, unit int) {
	rng := rand.New(rand.NewSource(seed*7001 + int64(unit)))
	nc := 2 + rng.Intn(2)
	rg := newRig(t, nc, 30*time.Second, 3*time.Second)
	defer rg.stop()
	for _, c := range rg.clients {
		c.d.WaitConnected(5 * time.Second)
	}
	keys := []string{"k1", "k2"}
	var mu sync.Mutex
	var hist []porcupine.Operation
	var wg sync.WaitGroup
	// faults: dropped replies and connection resets at seeded operations
	var fmu sync.Mutex
	fr := rand.New(rand.NewSource(seed + int64(unit)))
	drops := 0
	rg.zk.Before = func(q fakezk.Req) fakezk.Action {
		if !strings.HasPrefix(q.Path, ns+"/k") {
			return fakezk.Pass
		}
		fmu.Lock()
		defer fmu.Unlock()
		// Connections are reset before a request is applied (a disconnect between operations, as the statement
		// quantifies). Losing the reply of an applied request is deliberately not injected here: zk.go retries
		// such a request, which can apply a Set twice or answer 'exists' to the Create that created the key -
		// behaviour the statement does not speak about (recorded in DESIGN.md as an observation).
		if fr.Intn(25) == 0 {
			drops++
			return fakezk.DropBefore
		}
		return fakezk.Pass
	}
	rg.zk.Delay = func(q fakezk.Req) time.Duration {
		fmu.Lock()
		defer fmu.Unlock()
		return time.Duration(fr.Intn(4)) * time.Millisecond
	}
	perClient := tierN(tier, 25, 60)
	for ci, c := range rg.clients {
		wg.Add(1)
		crng := rand.New(rand.NewSource(seed*31 + int64(unit)*7 + int64(ci)))
		go func(ci int, c *client) {
			defer wg.Done()
			for i := 0; i < perClient; i++ {
				in := kvIn{Op: []string{"Create", "Set", "Get", "Delete", "Get", "Set"}[crng.Intn(6)], Key: keys[crng.Intn(len(keys))]}
				in.Val = fmt.Sprintf("%s-%d", c.name, i) // unique values make reads identify writes
				call := rg.zk.Tick()
				var out kvOut
				switch in.Op {
				case "Create":
					out.Res = kind(c.d.Create(in.Key, in.Val))
				case "Set":
					out.Res = kind(c.d.Set(in.Key, in.Val))
				case "Get":
					var v string
					err := c.d.Get(in.Key, &v)
					out.Res, out.Val = kind(err), v
				case "Delete":
					out.Res = kind(c.d.Delete(in.Key))
				}
				ret := rg.zk.Tick()
				mu.Lock()
				hist = append(hist, porcupine.Operation{ClientId: ci, Input: in, Output: out, Call: call, Return: ret})
				mu.Unlock()
				time.Sleep(time.Duration(crng.Intn(5)) * time.Millisecond)
			}
		}(ci, c)
	}
	wg.Wait()
	r.evals += len(hist)
	res, _ := porcupine.CheckOperationsVerbose(kvModel(), hist, 60*time.Second)
	switch res {
	case porcupine.Illegal:
		var w []string
		for _, o := range hist {
			w = append(w, fmt.Sprintf("c%d %v -> %v [%d,%d]", o.ClientId, o.Input, o.Output, o.Call, o.Return))
		}
		r.violate("C15", "concurrent-history-not-linearizable", fmt.Sprintf("the history of %d concurrent operations by %d clients has no linearization under the key model", len(hist), nc), w...)
	case porcupine.Unknown:
		r.res.Why = "porcupine timed out"
	}
	// an operation may fail with a generic error only if a fault or an overlapping operation on the same key explains it
	for _, o := range hist {
		if o.Output.(kvOut).Res != "error" {
			continue
		}
		overl := false
		for _, p := range hist {
			if p.Input.(kvIn).Key == o.Input.(kvIn).Key && p.ClientId != o.ClientId && p.Call < o.Return && o.Call < p.Return {
				overl = true
			}
		}
		if !overl && drops == 0 {
			r.violate("C15", "error-without-conflict", fmt.Sprintf("%v by c%d failed although no operation on the key overlaps it and no reply was dropped", o.Input, o.ClientId))
		}
	}
	r.cov("concurrent|clients=%d|drops=%v", nc, drops > 0)
	r.obs("%d concurrent operations by %d clients on 2 keys, %d dropped replies/requests, porcupine: %v", len(hist), nc, drops, res)
}

func c15Run(t *testing.T, r *rec, tier string, seed int64, unit int) {
	if unit%2 == 0 {
		c15Sequential(t, r, tier, seed, unit)
	} else {
		c15Concurrent(t, r, tier, seed, unit)
	}
}

// ---------------------------------------------------------------------------------------------
// C03 lock service

type lockEv struct {
	client    string
	op        string // acquire release
	res       bool
	call, ret int64
	vcall     time.Duration
}

type lkIn struct {
	Op string // acquire release expire
	C  string
}

func lockModel() porcupine.Model {
	nm := porcupine.NondeterministicModel{
		Init: func() []any { return []any{""} },
		Step: func(st, in, out any) []any {
			owner, i := st.(string), in.(lkIn)
			switch i.Op {
			case "acquire":
				if out.(bool) {
					if owner == "" || owner == i.C {
						return []any{i.C}
					}
					return nil
				}
				// told false: held by another, or an error on the way (the create may have applied)
				if owner == "" {
					return []any{"", i.C}
				}
				return []any{owner}
			case "release":
				if owner == i.C {
					return []any{"", owner} // the delete may have failed
				}
				return []any{owner}
			case "expire":
				if owner == i.C {
					return []any{""}
				}
				return []any{owner}
			}
			return nil
		},
		Equal: func(a, b any) bool { return a.(string) == b.(string) },
	}
	return nm.ToModel()
}

// c03ReleaseRetry is a targeted schedule: the reply of the releasing client's delete is lost (the delete took
// effect), another client takes the lock at once, and the releasing client's library retries.
func c03ReleaseRetry(t *testing.T, r *rec, seed int64, unit int) {
	rg := newRig(t, 2, 30*time.Second, 3*time.Second)
	defer rg.stop()
	a, b := rg.clients[0], rg.clients[1]
	a.d.WaitConnected(5 * time.Second)
	b.d.WaitConnected(5 * time.Second)
	if !a.d.AcquireLock("manager") {
		r.res.Why = "first acquire failed"
		return
	}
	var mu sync.Mutex
	dropped := false
	rg.zk.Before = func(q fakezk.Req) fakezk.Action {
		mu.Lock()
		defer mu.Unlock()
		if q.Op == "delete" && q.Path == ns+"/manager" && q.Client == a.name && !dropped {
			dropped = true
			return fakezk.DropAfter
		}
		return fakezk.Pass
	}
	stop := make(chan struct{})
	var wg sync.WaitGroup
	wg.Add(1)
	got := false
	go func() {
		defer wg.Done()
		for {
			select {
			case <-stop:
				return
			default:
			}
			if b.d.AcquireLock("manager") {
				mu.Lock()
				got = true
				mu.Unlock()
			}
			time.Sleep(time.Duration(1+(seed+int64(unit))%7) * time.Millisecond)
		}
	}()
	a.d.ReleaseLock("manager")
	time.Sleep(2 * time.Second)
	close(stop)
	wg.Wait()
	r.evals += 3
	owner := ""
	for _, l := range rg.zk.Log() {
		if l.Path != ns+"/manager" {
			continue
		}
		switch l.Op {
		case "create":
			var lo dcs.LockOwner
			_ = json.Unmarshal([]byte(l.Data), &lo)
			owner = lo.Hostname
		case "delete":
			if owner != "" && owner != l.Client {
				r.violate("C03", "release-removed-foreign-lock", fmt.Sprintf("%s deleted the lock znode owned by %s (the reply of its first delete was lost, %s took the lock, the client library retried the versioned delete against the new znode, whose version is 0 again)", l.Client, owner, owner))
			}
			owner = ""
		}
	}
	mu.Lock()
	defer mu.Unlock()
	if got && dropped {
		r.cov("release-retry-after-lost-reply")
		r.cov("release-applied")
	}
	r.obs("targeted release/retry schedule: reply of the delete dropped=%v, second client acquired=%v", dropped, got)
}

func c03Run(t *testing.T, r *rec, tier string, seed int64, unit int) {
	if unit%8 == 7 {
		c03ReleaseRetry(t, r, seed, unit)
		return
	}
	rng := rand.New(rand.NewSource(seed*4099 + int64(unit)))
	nc := 2 + rng.Intn(4)
	ttl := []time.Duration{0, time.Second, 30 * time.Second, time.Hour}[unit%4]
	sess := 3 * time.Second
	rg := newRig(t, nc, ttl, sess)
	defer rg.stop()
	for _, c := range rg.clients {
		c.d.WaitConnected(5 * time.Second)
	}
	t0 := time.Now()
	var mu sync.Mutex
	var evs []lockEv
	var fmu sync.Mutex
	fr := rand.New(rand.NewSource(seed ^ int64(unit)*977))
	dropsOnCreate := 0
	rg.zk.Before = func(q fakezk.Req) fakezk.Action {
		if q.Path != ns+"/manager" {
			return fakezk.Pass
		}
		fmu.Lock()
		defer fmu.Unlock()
		if q.Op == "create" && fr.Intn(12) == 0 {
			dropsOnCreate++
			return fakezk.DropAfter // the create that took the lock loses its reply
		}
		if fr.Intn(60) == 0 {
			return fakezk.DropBefore
		}
		return fakezk.Pass
	}
	rg.zk.Delay = func(q fakezk.Req) time.Duration {
		fmu.Lock()
		defer fmu.Unlock()
		if fr.Intn(10) == 0 {
			return time.Duration(fr.Intn(300)) * time.Millisecond
		}
		return 0
	}
	var wg sync.WaitGroup
	steps := tierN(tier, 40, 120)
	for ci, c := range rg.clients {
		wg.Add(1)
		crng := rand.New(rand.NewSource(seed*17 + int64(unit)*131 + int64(ci)))
		go func(c *client) {
			defer wg.Done()
			for i := 0; i < steps; i++ {
				op := "acquire"
				if crng.Intn(5) == 0 {
					op = "release"
				}
				call := rg.zk.Tick()
				vc := time.Since(t0)
				res := false
				if op == "acquire" {
					res = c.d.AcquireLock("manager")
				} else {
					c.d.ReleaseLock("manager")
				}
				ret := rg.zk.Tick()
				mu.Lock()
				evs = append(evs, lockEv{c.name, op, res, call, ret, vc})
				mu.Unlock()
				time.Sleep(time.Duration(50+crng.Intn(900)) * time.Millisecond)
			}
		}(c)
	}
	// the fault driver: cuts, silent mutes (the client runs into its receive timeout), administrative expiry, refused reconnects
	faults := map[string]int{}
	wg.Add(1)
	go func() {
		defer wg.Done()
		for i := 0; i < steps/3; i++ {
			time.Sleep(time.Duration(500+rng.Intn(2500)) * time.Millisecond)
			v := rg.clients[rng.Intn(nc)].name
			switch rng.Intn(4) {
			case 0:
				rg.zk.Cut(v, true)
				time.Sleep(time.Duration(200+rng.Intn(5000)) * time.Millisecond)
				rg.zk.Cut(v, false)
				faults["cut"]++
			case 1:
				rg.zk.Mute(v, true)
				time.Sleep(time.Duration(200+rng.Intn(5000)) * time.Millisecond)
				rg.zk.Mute(v, false)
				rg.zk.ResetConns(v)
				faults["mute"]++
			case 2:
				rg.zk.ResetConns(v)
				faults["reset"]++
			case 3:
				// the contractual expiry: cut, wait out the timeout, heal
				rg.zk.Cut(v, true)
				time.Sleep(sess + 200*time.Millisecond)
				rg.zk.Cut(v, false)
				faults["expiry"]++
			}
		}
	}()
	wg.Wait()
	// ---- oracles over the server log ----
	log := rg.zk.Log()
	type span struct {
		owner    string // identity written into the znode
		sessCl   string // client owning the session
		from, to int64
	}
	var spans []span
	var cur *span
	sessOf := map[int64]string{}
	sessOpened := map[int64]int64{} // session -> sequence number at which it was opened
	lostBy := map[string]int64{}    // client -> sequence number at which its own lock znode was removed by a session expiry
	// tainted: the history contains the recorded finding "a versioned delete queued in the client library across a session
	// change hits the znode somebody else created meanwhile" (known_findings.json); what follows from it in the same
	// history carries the same suffix
	taint := ""
	var expires []porcupine.Operation
	for _, l := range log {
		if l.Op == "session-open" {
			sessOf[l.Sess] = l.Client
			sessOpened[l.Sess] = l.Seq
		}
		if l.Op == "session-expire" || l.Op == "session-close" {
			expires = append(expires, porcupine.Operation{ClientId: 99, Input: lkIn{"expire", l.Client}, Output: true, Call: l.Seq, Return: l.Seq})
		}
		if l.Path != ns+"/manager" {
			continue
		}
		switch l.Op {
		case "create":
			var lo dcs.LockOwner
			_ = json.Unmarshal([]byte(l.Data), &lo)
			cur = &span{owner: lo.Hostname, sessCl: l.Client, from: l.Seq, to: 1 << 62}
			if !l.Eph {
				r.violate("C03", "lock-znode-not-ephemeral", fmt.Sprintf("%s created the lock znode as a plain node", l.Client))
			}
		case "delete", "expire-delete":
			if cur != nil {
				cur.to = l.Seq
				spans = append(spans, *cur)
				if l.Op == "delete" {
					// (b) a release removes only a lock carrying the releasing process's identity
					if cur.owner != l.Client {
						if at, ok := lostBy[l.Client]; ok && sessOpened[l.Sess] > at {
							// the deleter read its own znode in an earlier session, lost that session (and the znode) and sends the
							// delete in a new one
							taint = ":delete-queued-across-a-session-change"
						}
						r.violate("C03", "release-removed-foreign-lock"+taint, fmt.Sprintf("%s deleted the lock znode owned by %s", l.Client, cur.owner))
					}
					r.cov("release-applied")
				} else {
					lostBy[cur.sessCl] = l.Seq
					r.cov("lock-expired")
				}
				cur = nil
			}
		}
	}
	if cur != nil {
		spans = append(spans, *cur)
	}
	trues, cacheHits := 0, 0
	for _, e := range evs {
		r.evals++
		if e.op != "acquire" || !e.res {
			continue
		}
		trues++
		ok := false
		for _, sp := range spans {
			if sp.owner == e.client && sp.sessCl == e.client && sp.from <= e.ret && sp.to >= e.call {
				ok = true
			}
		}
		if !ok {
			var w []string
			for _, sp := range spans {
				w = append(w, fmt.Sprintf("lock held by %s (session of %s) during [%d,%d]", sp.owner, sp.sessCl, sp.from, sp.to))
			}
			r.violate("C03", "told-true-without-holding"+taint, fmt.Sprintf("%s was told it holds the lock by a call during logical interval [%d,%d] (%.3fs), but at no instant of it does the lock znode exist with its identity under a live session of its own (ttl %v)", e.client, e.call, e.ret, e.vcall.Seconds(), ttl), w...)
		}
	}
	// mutual exclusion of "told true": two clients told true in disjoint call intervals need an ownership change in between — covered by the span test;
	// here the direct form: overlapping spans must not exist (the server is linearizable), and no two different clients are told true for the same span instant
	for i := range spans {
		for j := i + 1; j < len(spans); j++ {
			if spans[i].from < spans[j].to && spans[j].from < spans[i].to && spans[i].to != spans[j].from && spans[j].to != spans[i].from {
				r.violate("C03", "overlapping-ownership", fmt.Sprintf("%+v overlaps %+v", spans[i], spans[j]))
			}
		}
	}
	// (c) porcupine second opinion on the client-boundary history plus expiry events
	var hist []porcupine.Operation
	idx := map[string]int{}
	for i, c := range rg.clients {
		idx[c.name] = i
	}
	for _, e := range evs {
		hist = append(hist, porcupine.Operation{ClientId: idx[e.client], Input: lkIn{e.op, e.client}, Output: e.res, Call: e.call, Return: e.ret})
	}
	hist = append(hist, expires...)
	res := porcupine.CheckOperationsTimeout(lockModel(), hist, 120*time.Second)
	if res == porcupine.Illegal {
		r.violate("C03", "lock-history-not-linearizable"+taint, fmt.Sprintf("the acquire/release history of %d clients (ttl %v) has no linearization under the sequential lock model", nc, ttl))
	} else if res == porcupine.Unknown {
		r.res.Why = "porcupine timed out"
	}
	_ = cacheHits
	if trues > 0 {
		r.cov("told-true")
	}
	if dropsOnCreate > 0 {
		r.cov("reply-dropped-on-lock-create")
	}
	for k := range faults {
		r.cov("fault:%s", k)
	}
	r.cov("lock|clients=%d|ttl=%v", nc, ttl)
	r.obs("%d clients, cache ttl %v: %d lock calls, %d told true, %d ownership spans, faults %v, %d dropped replies on the lock create, porcupine %v", nc, ttl, len(evs), trues, len(spans), faults, dropsOnCreate, res)
}

func init() {
	props["C15"] = &prop{units: func(tier string) int { return tierN(tier, 64, 1200) }, run: c15Run,
		floor: []string{"client-death-and-return"},
		rule:  "even units: seeded sequences of the data operations (Create, CreateEphemeral, Set, SetEphemeral, Get, Delete, GetChildren, GetTree, plus raw external writes of non-JSON values) by 1-3 real zkDCS clients over 6 keys in a 3-level tree with 4 path spellings, one operation at a time, compared exactly with a reference tree (incl. server-side ephemeral flags and client deaths); odd units: concurrent operations by 2-3 clients on 2 keys with connection resets before requests are applied and reply delays, client-boundary history checked per key with porcupine against a nondeterministic register-with-existence model; distinct by (operation, key state, spelling) and (clients, drops)"}
	props["C03"] = &prop{units: func(tier string) int { return tierN(tier, 64, 1600) }, run: c03Run,
		floor: []string{"told-true", "lock-expired", "release-applied", "reply-dropped-on-lock-create", "release-retry-after-lost-reply", "fault:cut", "fault:mute", "fault:expiry"},
		rule:  "2-5 real zkDCS clients acquire/release the manager lock in seeded sequences with cache TTL in {0, 1 s, 30 s, 1 h} while connections are cut, silently muted (client receive timeout), reset, sessions expire after the contractual timeout, and replies (including that of the create taking the lock) are dropped or delayed; oracle (a) every 'true' has an instant in its call interval at which the lock znode carries the caller's identity under its own live session (server log in linearization order), (b) every delete removes the deleter's own lock, (c) porcupine on the client-boundary history with expiry events; distinct by (clients, ttl) and fault kinds"}
}
