#!/opt/veriftools/pyvenv/bin/python
import json, sys, glob, jsonschema
jsonschema.validate(json.load(open('/verif/MANIFEST.json')), json.load(open('/root/.vp/MANIFEST.schema.json')))
print('manifest ok')
sch = json.load(open('/root/.vp/EVIDENCE.schema.json'))
for f in sorted(glob.glob('/verif/evidence/*.json')):
    jsonschema.validate(json.load(open(f)), sch)
    print('ok', f)
